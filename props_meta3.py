"""Metadata of the text-level properties (third batch)."""

PROPS = {
    "C06": {
        "level": "exploration",
        "budget": {"quick": 60, "thorough": 900},
        "asan": {"budget": 60},
        "miri": {"procs": 12, "count": 6},
        "needs_rel": True,
        "min_evaluations": 50000,
        "min_counters": {"programs_accepted": 3000, "programs_rejected": 30000, "values_accepted": 5000, "json_accepted": 500,
                         "witness_modules_accepted": 300, "types_accepted": 1000, "corpus_inputs": 3},
        "rule": ("Texts: token-level mutants (insert / delete / replace / duplicate / swap tokens from a dictionary of "
                 "keywords, types, builtins, punctuation, literal edge forms `_` `0x_` `0b_` odd hex lengths 300-digit runs, "
                 "CR / CRLF / tab / form feed, non-ASCII and control characters, unterminated comments, truncation at any "
                 "byte) of generated programs, the shipped examples, witness/param modules, JSON witness files, value and "
                 "type strings, plus raw random strings; bracket nesting <= 12. Each text goes through every entry point: "
                 "TemplateProgram::new -> instantiate (generated arguments, debug off/on, empty arguments) -> commit -> "
                 "satisfy -> encode; WitnessValues/Arguments::parse_from_str and their Display; serde_json::from_str for "
                 "both maps; ResolvedType::parse_from_str; Value::parse_from_str at a pool of 56 types; to_string of every "
                 "error. Cases run in child processes with an 8 MiB stack and an 8 GiB address-space limit; a dying child "
                 "is attributed to the announced case and re-run alone before it is reported. Thorough re-runs every "
                 "tenth range in a plain release build (debug assertions off). distinct_nontrivial = distinct texts "
                 "on which no entry point panicked."),
        "assumptions": ["input predicate of known finding F7: numbers that follow `;` or `,` are clamped to 65536 in generated texts; "
                        "fixed corpus inputs demonstrate F7 in address-space-limited children",
                        "a watchdog expiry is inconclusive, never a violation"],
    },
    "C16": {
        "level": "exploration",
        "budget": {"quick": 45, "thorough": 600},
        "min_evaluations": 20000,
        "min_counters": {"parsed_generated": 8000, "parsed_example": 2000, "parsed_mutant": 1000, "pairs_accepted": 8000, "pairs_rejected": 200, "paired_executions": 10000},
        "rule": ("Texts that parse: G1 programs under random layouts (comments incl. non-ASCII, tabs, CRLF, trailing commas, "
                 "optional `-> ()`, block/single arms, arm order, redundant parentheses, `mod witness {..}` / `mod param {}` "
                 "items), the shipped examples, and token mutants of both that still parse (mostly ill-typed). Judged: "
                 "parse(print(parse(t))) == parse(t) by the public PartialEq; printing is a fixed point after one round; "
                 "TemplateProgram::new accepts t iff it accepts print(t); for accepted generated programs the commit CMRs "
                 "are equal and both texts are executed under the monitors on the same witnesses. "
                 "distinct_nontrivial = distinct texts whose round trip was judged."),
        "assumptions": [],
    },
    "C17": {
        "level": "exploration",
        "budget": {"quick": 45, "thorough": 600},
        "min_evaluations": 50000,
        "min_counters": {"renamed_Variable": 10000, "renamed_Function": 8000, "renamed_Alias": 5000, "renamed_Witness": 8000,
                         "renamed_Parameter": 8000, "variant_layout": 3000, "variant_expressions": 1000, "variant_alias": 500},
        "rule": ("Base = accepted G1 program (with aliases, parameters, witnesses, functions). Variants: consistent renaming "
                 "of one name in one role (variable incl. function parameters and match bindings, function, alias, witness, "
                 "parameter) to names from a pool = {reserved word + letter / digit / `_` / `_x` / doubled, prefixed, case "
                 "variants, random identifiers}, never an exactly reserved word; alias replaced by its definition; random "
                 "sub-expressions wrapped in parentheses; three random layouts. Judged: every variant is accepted and has "
                 "the CMR of the base (names and layout never reach Simplicity); a renamed variant is also executed under "
                 "the monitors. distinct_nontrivial = distinct (base, role, new name) and variant texts judged."),
        "assumptions": ["the reserved set used to build the pool is the grammar's keywords, builtin types, aliases and functions; exactly reserved words are never used as names"],
    },
    "C19": {
        "level": "exploration",
        "budget": {"quick": 90, "thorough": 900},
        "needs_simc": True,
        "min_evaluations": 5000,
        "min_counters": {"cross_process_agreements": 3000, "simc_agreements_ok": 300, "simc_agreements_err": 50, "files": 300},
        "rule": ("All shipped examples and generated programs dense in hash-map backed tables (many aliases, functions, "
                 "witnesses, tracked calls; some with parameters or a `main` with a parameter so that compilation fails) x "
                 "debug off/on. Fingerprint = commit bytes, CMR and the debug-symbol entries of every marker in the program. "
                 "Programs with parameters are compiled with their arguments (written to a `mod param` file that every child process parses itself) and, one in eight, without (must fail). (a) 9 compilations in one process (thorough: 21) are identical, and one parsed TemplateProgram instantiated six times (debug off/on alternating) gives the bytes of a fresh compilation every time; (b) 8 (thorough: 16) separately started "
                 "processes print the same fingerprints; (c) `simc FILE [--debug]`, built from /repo's current tree: stdout "
                 "== `Program:\\n` + base64(library bytes) + `\\n` and exit 0 when the library compiles, non-zero exit with a "
                 "message (no signal, no panic) when it does not. distinct_nontrivial = distinct (file, debug) pairs judged at simc."),
        "assumptions": ["the wording of error messages is not part of the property (which missing parameter is named first depends on hash-map order)"],
    },
    "C20": {
        "level": "exploration",
        "budget": {"quick": 45, "thorough": 600},
        "min_evaluations": 50000,
        "min_counters": {"messages_checked": 50000, "quoted_lines_checked": 50000, "texts_with_cr": 5000, "texts_with_tab": 5000,
                         "texts_non_ascii": 5000, "multi_line_spans": 100, "errors_on_first_line": 3000, "errors_on_last_line": 1000},
        "rule": ("Rejected texts = token mutants of G1 programs (random layouts: CRLF, tabs, multi-byte comments, no final "
                 "newline) and of the shipped examples, each also with CRLF line ends, with a multi-byte comment in front "
                 "and with tabs. For every Err of TemplateProgram::new the message is parsed: `<pad> |`, zero or more "
                 "`N | text` with consecutive N <= number of lines and text == source line N (split on \\n, one trailing \\r "
                 "removed), `<pad> | <underline> <description>` where description == Display of the underlying Error "
                 "(obtained through parse::Program::parse_from_str / ast::Program::analyze); the span read from the "
                 "RichError Debug output must start inside the file and not end before it starts. "
                 "distinct_nontrivial = distinct rejected texts whose message passed."),
        "assumptions": ["an error located at end-of-file legitimately quotes no line", "a bare `\\r` at the very end of a file without final newline is not judged"],
    },
}

MANIFEST_TEXT = {
    "C06": {
        "text": ("Hostile-input exploration of every text entry point under a process-level monitor (panic hook + catch_unwind "
                 "per call, child exit status / signal for aborts and stack overflows, address-space limit)."),
        "design_ref": "DESIGN.md 6 C06, 3 (M2)",
        "note": "Found F1 (fixed). F7 (allocation abort on huge array sizes / list bounds) is a recorded known finding with fixed corpus inputs.",
        "technique": "crash/panic monitor over grammar-aware mutation workloads in isolated child processes",
    },
    "C16": {
        "text": "Round-trip monitor over parseable texts incl. ill-typed token mutants, plus paired execution of original and printed text.",
        "design_ref": "DESIGN.md 6 C16",
        "note": "Found F9 (digit-free literals printed as nothing; fixed).",
        "technique": "round-trip (print/parse) and metamorphic monitors over generated and mutated texts",
    },
    "C17": {
        "text": "Metamorphic exploration: renamings, alias inlining, parenthesisation and layout changes must keep acceptance and the CMR.",
        "design_ref": "DESIGN.md 6 C17",
        "note": "Found F5 (missing word boundaries in the grammar; fixed).",
        "technique": "metamorphic relation monitor (CMR equality across renamed / re-laid-out variants)",
    },
    "C19": {
        "text": "Determinism observed by repetition: in-process, across freshly started processes (different hash seeds) and against the simc binary built from the current tree.",
        "design_ref": "DESIGN.md 6 C19",
        "note": "Hash-seed dependence would show only with some probability per process; 8-16 processes x ~60-600 files.",
        "technique": "differential monitor across repeated runs / processes / the command-line tool",
    },
    "C20": {
        "text": "Every error message produced by a large rejected-text workload is parsed and checked line by line against the source text and the underlying error.",
        "design_ref": "DESIGN.md 6 C20",
        "note": "The span is read from the public Debug output of RichError.",
        "technique": "output monitor (message parser) over rejected texts with layout variants",
    },
}

PROPS.update({
    "C03": {
        "level": "exploration",
        "budget": {"quick": 45, "thorough": 600},
        "min_evaluations": 20000,
        "min_counters": {"accepted_generated": 2000, "accepted_ast-mutant": 10000, "accepted_printed": 2000, "accepted_token-mutant": 3000, "accepted_example-mutant": 2000},
        "rule": ("Texts: G1 programs, their single-edit AST mutants (type / arity / size / scope / name / order / signature edits, "
                 "including the cases the book leaves open: duplicate parameter names, redefinitions), the pretty printer's "
                 "output, token-level mutants of the programs and of the shipped examples, and corpus regressions. Every "
                 "text that TemplateProgram::new accepts is instantiated with arguments generated from parameters(), with "
                 "debug symbols off and on: instantiate must return Ok (never `Failed to compile to Simplicity`, never a "
                 "panic), commit() must not panic and must have type 1 -> 1. distinct_nontrivial = distinct accepted texts."),
        "assumptions": ["arguments consistent with parameters() are random values of the reported types"],
    },
    "C04": {
        "level": "exploration",
        "budget": {"quick": 45, "thorough": 600},
        "min_evaluations": 50000,
        "min_counters": {"well_formed_accepted": 10000, "ill_formed_rejected": 50000},
        "rule": ("G1 programs (expected: accepted) and ~40 single-edit mutants of each (operators: type edits incl. same-layout "
                 "replacements, argument / element / pattern arity +-1, array size +-1, list padded to its bound, literal = "
                 "2^N or digit count +-1, renamed / undefined / reordered variables, functions and aliases, duplicate names in "
                 "a pattern, witness reuse and witness in a function, main missing / doubled / with parameter / with result, "
                 "fold / loop signature edits, casts between unequal layouts, incompatible match arms, statement deletion / "
                 "duplication / reordering, final expression added / removed). Each mutant is classified by the independent "
                 "static checker (check_static.rs, written from the book): WellFormed -> must be accepted, IllFormed(rule) -> "
                 "must be rejected, Unspecified -> not judged. Evidence lists every rule with the number of mutants that "
                 "exercised it. distinct_nontrivial = distinct program texts judged."),
        "assumptions": ["the static rules are the book's; cases the book leaves open (duplicate parameter names, alias / function redefinition) are not judged"],
    },
})

MANIFEST_TEXT.update({
    "C03": {
        "text": "Totality exploration of the back end on whatever the front end lets through, fed by five text families aimed at analysis checks that are weaker than code generation.",
        "design_ref": "DESIGN.md 6 C03",
        "note": "Found F3 (tuple pattern arity; fixed) and F4 (duplicate parameter names).",
        "technique": "stage-outcome monitor (Ok / Err text / panic) over accepted texts from generators and mutators",
    },
    "C04": {
        "text": "Differential exploration of the front end's accept/reject decision against an independent static checker on generated programs and their near misses.",
        "design_ref": "DESIGN.md 6 C04",
        "note": "Trusted: check_static.rs. Found F3 (fixed).",
        "technique": "differential oracle (independent static checker) over near-miss mutants",
    },
})
