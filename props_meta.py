"""Per-property metadata used by ./check (budgets in seconds per worker, evidence texts)."""

ORDER_ASSUMPTION = ("evaluation order is the book's 'executed from top to bottom' plus left-to-right inside an "
                    "expression (the only order the Bit Machine can produce for pair/comp)")
JET_ASSUMPTION = ("the meaning of a jet is taken from the real C implementation (one-node Bit Machine); "
                  "simfony is judged on which values reach the jet and in which order")

PROPS = {
    "C01": {
        "level": "translation_validation",
        "budget": {"quick": 55, "thorough": 900},
        "min_evaluations": 2000,
        "min_counters": {"events_jet": 1000, "events_unwrap": 50, "runs_finished": 50, "runs_panicked": 50},
        "rule": ("G1 type-directed programs (all expression forms / type constructors), probe literals filled by a "
                 "first reference run; each program is compiled with debug symbols off and on and executed for every "
                 "witness assignment (exhaustive when the space has <= 2^12 points, else primary + boundaries + "
                 "single-witness perturbations + random). One evaluation = one (program, debug, witness) execution "
                 "through satisfy -> encode -> decode -> Bit Machine, judged against the reference interpreter: same "
                 "verdict and same event log (jet inputs/outputs, unwrap scrutinees, fail, debug markers). "
                 "distinct_nontrivial = distinct (program text, witness index, debug) hashes whose execution produced "
                 ">= 1 monitored event and whose log matched."),
        "assumptions": [ORDER_ASSUMPTION, JET_ASSUMPTION,
                        "values of sub-terms that the program never inspects are compared modulo Simplicity's pruning to unit"],
    },
}

MANIFEST_TEXT = {
    "C01": {
        "text": ("Translation validation per program on the explored inputs: every generated program is compiled by the "
                 "real library, serialized, decoded and executed on the real Bit Machine for each witness assignment and "
                 "both debug settings; an independent reference interpreter prescribes verdict and event log, an "
                 "instrumented evaluator of the decoded program records the observed log. A witness-free program has one "
                 "behaviour, so for it the check validates that compilation completely; small witness spaces are enumerated."),
        "design_ref": "DESIGN.md 6 C01, 3 (M3-M5)",
        "note": ("Trusted: the harness's interpreter/layout (written from the book), simplicity-lang's decoder and Bit "
                 "Machine, the C jets as the meaning of jets. Reach = the generated family (bounded size, list bounds <= 16)."),
        "technique": "reference-model monitor over recorded executions (event-log comparison) + self-checking probe programs",
    },
}
