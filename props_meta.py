"""Per-property metadata used by ./check and mkmanifest.py (budgets in seconds per worker)."""

ORDER_ASSUMPTION = ("evaluation order is the book's 'executed from top to bottom' plus left-to-right inside an "
                    "expression (the only order the Bit Machine can produce for pair/comp)")
JET_ASSUMPTION = ("the meaning of a jet is taken from the real C implementation (one-node Bit Machine); "
                  "simfony is judged on which values reach the jet and in which order")
PRUNE_ASSUMPTION = ("values of sub-terms that the program never inspects are compared modulo Simplicity's pruning "
                    "to unit (such parts have type 1 on chain)")
EXEC_RULE = ("One execution = text -> TemplateProgram::new -> instantiate -> commit -> satisfy -> encode_to_vec -> "
             "RedeemNode::decode -> BitMachine::exec (dummy env), with the trace machine recording jet / unwrap / fail "
             "/ marker events of the decoded program; judged against the reference interpreter (verdict + event log). ")

PROPS = {
    "C01": {
        "level": "translation_validation",
        "budget": {"quick": 35, "thorough": 900},
        "min_evaluations": 2000,
        "min_counters": {"events_jet": 1000, "events_unwrap": 50, "runs_finished": 50, "runs_panicked": 50},
        "rule": ("G1 type-directed programs (all expression forms / type constructors), probe literals filled by a "
                 "first reference run; each program is compiled with debug symbols off and on and executed for every "
                 "witness assignment (exhaustive when the space has <= 2^12 points, else primary + boundaries + "
                 "single-witness perturbations + random). " + EXEC_RULE +
                 "distinct_nontrivial = distinct (program text, witness index, debug) hashes whose execution produced "
                 ">= 1 monitored event and whose log matched."),
        "assumptions": [ORDER_ASSUMPTION, JET_ASSUMPTION, PRUNE_ASSUMPTION],
    },
    "C07": {
        "level": "exploration",
        "budget": {"quick": 40, "thorough": 600},
        "miri": {"procs": 12, "count": 6},
        "min_evaluations": 5000,
        "min_counters": {"values_checked": 3000, "casts_accepted": 100, "casts_rejected": 1000, "cast_executions": 50},
        "rule": ("Systematic types (every constructor over every leaf type; array sizes 0..17,31,32,33,64,255,256,1000; list "
                 "bounds 2..512; nested containers) plus random types to depth 3. Per type: StructuralType walked through "
                 "Final vs the harness's documented layout; per value (all values for domains <= 300, else boundaries, "
                 "random, every list block boundary): StructuralValue vs documented layout, reconstruct round trip. Casts: "
                 "all ordered pairs of a pool of layout-related types: accepted iff layouts equal; accepted casts executed "
                 "with probes of the result read back at the target type. distinct_nontrivial = distinct types + distinct "
                 "(type, value) + distinct ordered cast pairs that were judged."),
        "assumptions": ["the documented layout is the book's type_casting.md table, implemented independently in harness/src/layout.rs"],
    },
    "C11": {
        "level": "exploration",
        "budget": {"quick": 40, "thorough": 400},
        "min_evaluations": 5000,
        "min_counters": {"accepted_literals": 1000, "rejected_literals": 1000, "runtime_comparisons": 20, "byte_string_literals": 50},
        "rule": ("All nine widths x {0, 1, 2^N-1, 2^N, 2^N+1, 2^(N-1), 10^k, 10^k +- 1, random, wider random} x {decimal, "
                 "binary, hex} x underscore placements (leading, trailing, doubled, between every digit, only "
                 "underscores) x leading zeros (also mixed with separators: `0_0..`, `00_..`) x off-by-one digit counts x 300-digit runs. Oracle: the harness's own "
                 "literal reader + 256-bit arithmetic. Judged: acceptance of `let x: uN = LIT;`, Value::parse_from_str "
                 "against the Rust constructors, print-parse of the value, run-time eq_N against a constructor-built "
                 "witness (right value finishes, neighbour panics), hex byte strings at [u8; n] for n = 0..40. "
                 "distinct_nontrivial = distinct (width, literal text) judged."),
        "assumptions": ["a text that denotes nothing must be rejected by `let` and by Value::parse_from_str alike (the string parsers consume their whole input since fix 3aee392)"],
    },
    "C13": {
        "level": "exploration",
        "budget": {"quick": 60, "thorough": 600},
        "asan": {"budget": 60},
        "min_evaluations": 2000,
        "min_counters": {"documented_call_ok": 460, "wrong_call_rejected": 500, "model_agreements": 3000, "jets_with_model": 250},
        "rule": ("Every jet of Elements::ALL (471) from the documented signature table jets_golden.tsv (cross-checked "
                 "against the Simplicity source/target types): the documented one-call program must compile and commit "
                 "(the two reserved jets must be rejected); calls with one argument fewer / more, with two "
                 "differently-typed arguments swapped, with the result bound at a type of another shape, with the result bound at "
                 "up to three differently named types of the SAME layout, or with one argument at a same-layout type of another "
                 "name must all be rejected. For "
                 "jets with a native closed-form model: boundary (all-zero, all-max, one-hot per argument) and random "
                 "asymmetric argument tuples supplied as witnesses; the observed jet event (input tuple, output) and the "
                 "probed result must equal the native model. distinct_nontrivial = distinct documented calls + distinct "
                 "(jet, input) pairs on which model and observation agreed."),
        "assumptions": [JET_ASSUMPTION.replace("taken from the real C implementation", "given by the harness's native models (jetmodel.rs) for ~300 jets"),
                        "jets_golden.tsv freezes the documented signatures of the pinned commit"],
    },
    "C15": {
        "level": "exploration",
        "budget": {"quick": 30, "thorough": 300},
        "miri": {"procs": 12, "count": 6},
        "min_evaluations": 20000,
        "min_counters": {"maps": 1000, "byte_arrays": 1000, "duplicate_module_rejected": 500, "duplicate_json_rejected": 500},
        "rule": ("Random types to depth 3 and targeted byte-array shapes ([u8; 0..64], nested, inside tuples / options / "
                 "lists / arrays, next to u4/u16/u128/u256 arrays, empty and singleton containers) with random values; 15 "
                 "small types with all their values. Per value: print -> parse == value, printed type parses back, an "
                 "independent reader of the printed text yields the value. Per map (0-6 names): witness and param modules "
                 "and JSON print-parse to an equal map, printing is insertion-order independent and sorted, duplicate "
                 "names rejected in module and JSON form. distinct_nontrivial = distinct (type, printed value) + maps."),
        "assumptions": ["the independent reader (textparse.rs) implements the book's value notation"],
    },
}

def _merge():
    import importlib
    for name in ("props_meta2", "props_meta3"):
        try:
            m = importlib.import_module(name)
        except ModuleNotFoundError:
            continue
        PROPS.update(m.PROPS)
        MANIFEST_TEXT.update(m.MANIFEST_TEXT)


MANIFEST_TEXT = {
    "C01": {
        "text": ("Translation validation per program on the explored inputs: every generated program is compiled by the "
                 "real library, serialized, decoded and executed on the real Bit Machine for each witness assignment and "
                 "both debug settings; an independent reference interpreter prescribes verdict and event log, an "
                 "instrumented evaluator of the decoded program records the observed log. A witness-free program has one "
                 "behaviour, so for it the check validates that compilation completely; small witness spaces are enumerated."),
        "design_ref": "DESIGN.md 6 C01, 3 (M3-M5)",
        "note": ("Trusted: the harness's interpreter/layout (written from the book), simplicity-lang's decoder and Bit "
                 "Machine, the C jets as the meaning of jets. Reach = the generated family (bounded size, list bounds <= 16)."),
        "technique": "reference-model monitor over recorded executions (event-log comparison) + self-checking probe programs",
    },
    "C07": {
        "text": ("Exploration with an independent layout oracle: simfony's structural types and values are observed "
                 "through the public API for a systematic + random family of types and values and compared node by node "
                 "with the documented layout; cast acceptance is compared over all ordered pairs of a type pool and "
                 "accepted casts are executed with bit-level probes."),
        "design_ref": "DESIGN.md 6 C07",
        "note": "Trusted: harness layout.rs (from type_casting.md). Held on the explored types/values/pairs only.",
        "technique": "reference-model monitor (independent layout function) over observed structural types/values; executed cast probes",
    },
    "C11": {
        "text": ("Exploration over a dense family of literal texts with an independent literal reader and 256-bit "
                 "arithmetic as oracle, observed at three boundaries: program acceptance, value parsing vs the Rust "
                 "constructors, and run-time comparison on the real Bit Machine."),
        "design_ref": "DESIGN.md 6 C11",
        "note": "Trusted: harness u256.rs / parse_int_literal. Covers the listed widths, notations and edge forms, not all strings.",
        "technique": "differential oracle (independent literal reader) + executed comparisons against constructor-built witnesses",
    },
    "C13": {
        "text": ("Exploration over all 471 jets: documented calls must compile, malformed calls must not; for ~300 jets "
                 "with a closed-form meaning the values observed at the jet node (trace event) and in the probed result "
                 "are compared with native arithmetic on asymmetric inputs, which makes argument order and grouping visible."),
        "design_ref": "DESIGN.md 6 C13",
        "note": "Trusted: jets_golden.tsv (frozen documentation), jetmodel.rs. Jets without a model are checked for callability only.",
        "technique": "golden-table conformance + native reference models compared with observed jet events",
    },
    "C15": {
        "text": ("Exploration of print-parse round trips over random and targeted values, maps and types, with an "
                 "independent reader of the printed text as a second oracle (so a printer and parser that are wrong in "
                 "the same way are still caught) and duplicate-name rejection probes."),
        "design_ref": "DESIGN.md 6 C15",
        "note": "Trusted: textparse.rs. Held on the sampled values; small domains exhaustively.",
        "technique": "round-trip and differential monitors over generated values and maps",
    },
}


_merge()
