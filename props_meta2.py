"""Metadata of the execution-based properties (second batch)."""
from props_meta import ORDER_ASSUMPTION, JET_ASSUMPTION, PRUNE_ASSUMPTION, EXEC_RULE

PROPS = {
    "C02": {
        "level": "exploration",
        "budget": {"quick": 40, "thorough": 600},
        "asan": {"budget": 60},
        "min_evaluations": 20000,
        "min_counters": {"programs_uninspected": 2000, "programs_generated": 2000, "example_runs": 60, "witness_nodes_walked": 50000},
        "rule": ("(i) Uninspected-witness family: 10 program shapes (bound to an unused variable, to `_`, only re-tupled, "
                 "payload of an arm that ignores it, passed to a function that drops it, only cast, injected, dbg!-ed, "
                 "array element that is dropped, half-inspected pair) x random types to depth 2; (ii) G1 programs with up "
                 "to 8 witnesses; (iii) the shipped examples with their .wit/.args files and with the empty map. Each "
                 "program x {debug off, on} x 7 witness maps (all-zero, all-max, 2 random, and three partial maps: without the last "
                 "name, without the first, a random subset); (iv) the corpus programs that come with a witness file (a file "
                 "named *_succeeds must also run successfully). Judged per map that satisfy "
                 "accepts: redeem CMR == commit CMR, root arrow 1->1, every witness node holds a value of the node's type "
                 "(M6 walker), encode_to_vec decodes, decoded CMR equal, BitMachine::exec returns (Ok or Err) without "
                 "panic. distinct_nontrivial = distinct (program, map, debug) triples that passed all of these."),
        "assumptions": ["the Simplicity decoder and Bit Machine of simplicity-lang 0.4.0 are the reference for 'decodes' and 'runs'"],
    },
    "C05": {
        "level": "exploration",
        "budget": {"quick": 60, "thorough": 500},
        "min_evaluations": 20000,
        "min_counters": {"map_exact": 5000, "map_permuted": 2000, "mistyped_rejected": 10000, "map_extra_names": 5000, "map_missing_name": 3000, "events_witness": 20000},
        "rule": ("Programs with 0..8 witnesses of random types (some sharing a type), each bound and (80 %) probed down to "
                 "its integer leaves against the primary value; in two thirds of the programs the probes skip components "
                 "of tuples and arrays at random (30 % / 60 %), so that a value is inspected only in part and its witness "
                 "node is pruned in the middle. Maps: exact (must be accepted, probes must pass, every "
                 "witness event must carry the supplied value), permuted among same-typed names and fresh random values "
                 "(accepted; verdict and witness events as the reference prescribes), extra names (accepted, ignored), one "
                 "missing name (accepted or rejected, never a panic or ill-typed node), a declared name supplied at "
                 "another type — same layout but different nominal type, different layout, wrapped in Option, two names at "
                 "once — (must be rejected). " + EXEC_RULE + "distinct_nontrivial = distinct (program, map kind) pairs judged."),
        "assumptions": [PRUNE_ASSUMPTION, "names the map omits are legal (satisfy zero-fills them); only 'no panic / well-typed' is judged for them"],
    },
    "C08": {
        "level": "exploration",
        "budget": {"quick": 45, "thorough": 900},
        "min_evaluations": 1500,
        "min_counters": {"fold_applications_observed": 20000, "folds_finishing": 400, "folds_panicking": 150, "source_literal": 100, "source_witness": 100, "source_computed": 100},
        "rule": ("For every bound N in {2,4,...,256} (thorough: 512) and every length 0 <= k < N: programs folding an order-sensitive step function "
                 "(acc*31 + key(element), visible in the log through multiply_64/add_64 events per application) over a "
                 "list that is a literal, a witness or computed by a function; element types u8, u1, (u8,bool), (), u256; "
                 "one third of the programs panic at a chosen element. Judged: verdict and complete event log against the "
                 "reference interpreter, the probed result, and a closed-form oracle (result / panic index) that does not "
                 "use the interpreter's fold. Witness lists of other lengths and a first/last swap are run through the "
                 "same compiled program. distinct_nontrivial = distinct (program, witness, debug) executions that agreed."),
        "assumptions": [ORDER_ASSUMPTION, JET_ASSUMPTION],
    },
    "C09": {
        "level": "exploration",
        "budget": {"quick": 150, "thorough": 900},
        "min_evaluations": 1500,
        "min_counters": {"loops_run": 1500, "iterations_observed": 100000},
        "rule": ("Counter widths 1,2,4,8,16 (16: the quick tier runs 14 early exits below 3000 and one long run per loop body - exit at 32768, a random exit in the upper half, no exit; the thorough tier 16 selected exits) x 3 loop bodies (order-recording accumulator acc*31+i+1, context "
                 "tag check on every iteration, panic on any iteration after the exit point) x debug symbols off/on. The "
                 "exit iteration is supplied through the context witness, so one compiled program is run for EVERY exit "
                 "iteration 0..2^n-1 and for 'never' (width 16: 16 selected exits). Judged: verdict and full event log "
                 "against the reference, the number of body evaluations and the result (Left(b_j) / Right(acc_final), made "
                 "observable through xor_64 and compared with a closed-form expectation supplied as witness), and a wrong "
                 "context tag must fail at iteration 0. distinct_nontrivial = distinct (width, body, debug, exit, tag) runs."),
        "assumptions": [ORDER_ASSUMPTION, JET_ASSUMPTION],
    },
    "C10": {
        "level": "exploration",
        "budget": {"quick": 40, "thorough": 900},
        "min_evaluations": 5000,
        "min_counters": {"use_sites_probed": 50000, "structures_enumerated": 5000},
        "exhaustive_counter": "exhaustive_slices_completed",
        "exhaustive": True,
        "rule": ("Binding structures over the names a, b: statement alphabet = 9 leaf statements (let a / let b / tuple, "
                 "array and nested patterns with up to three leaves and `_` / let a = b / let b = a / call of a function "
                 "whose parameters are (b, a)) + nested-block let, bare block, match Some, match Left/Right whose blocks "
                 "hold at most one leaf statement (59 statements). ALL sequences of length <= 3 are enumerated (208 920 "
                 "programs; the quick tier runs lengths <= 2 completely and a seed-chosen 1/12 slice of length 3), plus "
                 "random structures of depth 2-4. Every binding site binds a distinct constant; after every statement, in "
                 "every block, arm and function body, each bound name is probed on the real machine against the constant "
                 "the reference resolver predicts - as a bare variable and, when both names are bound, also inside a tuple, "
                 "an array or a nested tuple made of the bare variables (the use site must not matter); binding sites "
                 "rotate through u8/u16/u32 so that a mixed-up level mistypes the program. distinct_nontrivial = distinct program texts whose probes all passed."),
        "assumptions": ["the lexical resolver is the harness's interpreter (block scoping, shadowing, right-hand side sees earlier bindings, function body sees only parameters)"],
    },
    "C12": {
        "level": "exploration",
        "budget": {"quick": 45, "thorough": 600},
        "min_evaluations": 10000,
        "min_counters": {"instantiate_ok": 2000, "instantiate_rejected": 1500, "paired_executions": 10000},
        "rule": ("G1 programs with 0..4 parameters (in main and in functions, names reused at one type). Judged: "
                 "parameters() == the param:: occurrences with their types; instantiate succeeds for exact and "
                 "exact+extra arguments and fails for a missing argument, an argument of a same-layout-but-different type "
                 "and of a different-layout type; for 3 argument assignments x debug off/on the instantiated template and "
                 "the program with each param:: replaced by the literal are both executed on the same witness assignments "
                 "(each against the reference interpreter) and must agree; CMRs must be equal when all parameters are "
                 "integers/Booleans. One case in ten is the parameter-reuse family: `param::X` written twice (both in main, or "
                 "in main and in a function) at the same type (accepted, reported once), at two types of different shape and "
                 "at two different types of the same layout (both rejected). distinct_nontrivial = distinct (template, "
                 "argument round, debug, witness) pairs."),
        "assumptions": [ORDER_ASSUMPTION, JET_ASSUMPTION, PRUNE_ASSUMPTION],
    },
    "C14": {
        "level": "exploration",
        "budget": {"quick": 45, "thorough": 600},
        "min_evaluations": 3000,
        "min_counters": {"markers_resolved": 20000, "marker_events": 50000, "map_value_checked": 50000, "dbg_values_reconstructed": 1000, "paired_executions": 5000},
        "rule": ("G1 programs rendered in random layouts (tabs, CRLF, block comments incl. non-ASCII before and inside "
                 "calls, multi-line calls, calls inside functions called several times and inside fold/for_while bodies). "
                 "Static: every assertl hidden CMR of the debug commit is fail-0 or resolves through debug_symbols() to "
                 "text and kind of a call of the program; the plain build has no marker; two debug builds have one CMR. "
                 "Dynamic, per witness: plain and debug build give the same verdict; marker events occur exactly where "
                 "the reference prescribes with the prescribed arguments; call sites and markers stay in one-to-one "
                 "correspondence over all runs; TrackedCall::map_value on the observed arguments returns the right kind and, "
                 "for dbg!/unwrap_left/unwrap_right, the source-level value. One case in 40 (thorough: 400) is a straight-line main with 140-400 "
                 "(thorough: -840) tracked call sites of every kind, all executed, so that marker identity is exercised beyond "
                 "256 sites. distinct_nontrivial = distinct (program, witness) pairs."),
        "assumptions": [ORDER_ASSUMPTION, "marker values of which Simplicity pruned a part to unit are not judged for reconstruction",
                        "line comments are not placed inside call expressions (the symbol text joins the lines of a call)"],
    },
    "C18": {
        "level": "exploration",
        "budget": {"quick": 45, "thorough": 600},
        "min_evaluations": 50000,
        "min_counters": {"pruned_ok": 10000, "pruned_err": 10000},
        "rule": ("Environment-dependent programs (match on tx_lock_height / tx_is_final / num_outputs / version / lock_time / "
                 "current_sequence / tx_lock_distance / num_inputs with arms that assert witnesses, call check_lock_*, "
                 "ignore a witness or panic), G1 programs (incl. all jets), the shared-witness family (one witness value bound to a "
                 "variable and read in the two arms of a match on a Boolean witness, in full in one arm and in part in the other, "
                 "so that pruning the untaken arm narrows the type of the shared value) and the corpus programs with a witness "
                 "file, x 5 witness maps (incl. the empty map and a map with a missing name) x 6 environments "
                 "(lock time 0 / 1000 blocks / time, sequence MAX / 1000 / ENABLE_LOCKTIME_NO_RBF, fee output or not). "
                 "Oracle = the unpruned program executed under the same env. Judged: satisfy_with_env is Ok exactly when "
                 "the unpruned program succeeds; when Ok: CMR == commit CMR, root 1->1, witness nodes well-typed, encoding "
                 "decodes to the same CMR, the decoded pruned program succeeds under env. distinct_nontrivial = distinct "
                 "(program, witness map, env) triples judged."),
        "assumptions": ["the unpruned execution is the oracle, as the property is stated"],
    },
}

MANIFEST_TEXT = {
    "C02": {
        "text": ("Exploration with a structural monitor on what satisfy returns (redeem walker, decoder round trip, Bit Machine "
                 "with panic capture) over a family built to leave witnesses uninspected, the general program family and the "
                 "shipped examples."),
        "design_ref": "DESIGN.md 6 C02, 3 (M6)",
        "note": "Held on the explored (program, witness map) pairs. Found and fixed F6 (uninspected witnesses) on the pinned tree.",
        "technique": "invariant monitor over returned redeem programs (type walker + encode/decode + execution with panic capture)",
    },
    "C05": {
        "text": ("Exploration of satisfy over typed and mistyped witness maps with two observers: the accept/reject boundary and "
                 "the values that actually reach each witness node and each probe at run time."),
        "design_ref": "DESIGN.md 6 C05",
        "note": "Trusted: harness value constructors, reference interpreter. Reach: 0..8 witnesses, types to depth 2.",
        "technique": "reference-model monitor over recorded executions (witness events, probes) + acceptance oracle",
    },
    "C08": {
        "text": ("Dense exploration of (bound, length) with order-sensitive and panicking step functions; the event log of the "
                 "executed program shows each application of the step function with its element and accumulator, so order, "
                 "exactly-once and threading are observed directly, and a closed-form oracle judges the result."),
        "design_ref": "DESIGN.md 6 C08",
        "note": "Bounds to 256 (512 thorough); all lengths for N <= 64 in the quick tier.",
        "technique": "trace checker over recorded jet events per fold application + closed-form result oracle",
    },
    "C09": {
        "text": ("Every exit iteration of every counter width up to 8 bits (16 sampled in thorough) is executed through one "
                 "compiled program per loop body; iteration order, context passing and early exit are observed in the event "
                 "log and judged against the reference and a closed form."),
        "design_ref": "DESIGN.md 6 C09",
        "note": "Width 16 only in the thorough tier (65536 iterations per run).",
        "technique": "trace checker over recorded loop-body events + closed-form oracle supplied as witness",
    },
    "C10": {
        "text": ("Exhaustive enumeration of a documented finite family of binding structures (thorough) / a slice of it "
                 "(quick) with self-checking probes at every program point, plus random deeper structures."),
        "design_ref": "DESIGN.md 6 C10",
        "note": "Exhaustive for the stated alphabet and length only; deeper nesting is sampled.",
        "technique": "self-checking probe programs executed on the real Bit Machine, oracle = reference scoping resolver",
    },
    "C12": {
        "text": ("Metamorphic exploration: template + arguments versus the literal-substituted program, both compiled and "
                 "executed under the monitors on the same witnesses; acceptance boundary of instantiate probed with "
                 "missing / extra / mistyped arguments."),
        "design_ref": "DESIGN.md 6 C12",
        "note": "Reach: 0..4 parameters, three argument assignments per template.",
        "technique": "metamorphic relation monitor (paired executions) + acceptance oracle",
    },
    "C14": {
        "text": ("Static walk of the committed debug build plus dynamic observation of marker events in executions, matched "
                 "position by position with the call sites the reference interpreter visits."),
        "design_ref": "DESIGN.md 6 C14",
        "note": "Symbol texts are compared modulo whitespace and block comments.",
        "technique": "structural monitor of embedded markers + trace checker of marker events against the reference",
    },
    "C18": {
        "text": ("Differential exploration: the unpruned program executed under env is the oracle for satisfy_with_env; the "
                 "returned pruned program is walked, re-encoded, decoded and executed under the same env."),
        "design_ref": "DESIGN.md 6 C18",
        "note": "Six dummy-environment variants. Found and fixed F8 (pruned program not decodable) on the pinned tree.",
        "technique": "differential monitor (unpruned vs pruned execution) + redeem walker + decoder round trip",
    },
}
