//! Tiny recursive-descent readers for type and constant-value texts (golden jet table,
//! `.wit`/`.args` files of the shipped examples, replay files). Independent of simfony's parser.

use crate::ast::{Ty, Val, BUILTIN_ALIASES};
use crate::u256::U256;

struct P<'a> {
    s: &'a [u8],
    i: usize,
}

impl<'a> P<'a> {
    fn ws(&mut self) {
        while self.i < self.s.len() && (self.s[self.i] as char).is_whitespace() {
            self.i += 1;
        }
    }
    fn eat(&mut self, t: &str) -> bool {
        self.ws();
        if self.s[self.i..].starts_with(t.as_bytes()) {
            self.i += t.len();
            true
        } else {
            false
        }
    }
    fn expect(&mut self, t: &str) -> Result<(), String> {
        if self.eat(t) {
            Ok(())
        } else {
            Err(format!("expected `{t}` at {}", self.i))
        }
    }
    fn peek(&mut self) -> Option<u8> {
        self.ws();
        self.s.get(self.i).copied()
    }
    fn word(&mut self) -> String {
        self.ws();
        let st = self.i;
        while self.i < self.s.len()
            && ((self.s[self.i] as char).is_ascii_alphanumeric() || self.s[self.i] == b'_')
        {
            self.i += 1;
        }
        String::from_utf8_lossy(&self.s[st..self.i]).to_string()
    }
    fn number(&mut self) -> Result<usize, String> {
        let w = self.word();
        w.parse::<usize>().map_err(|e| format!("{w}: {e}"))
    }

    fn ty(&mut self) -> Result<Ty, String> {
        self.ws();
        if self.eat("(") {
            let mut v = vec![];
            loop {
                if self.eat(")") {
                    break;
                }
                v.push(self.ty()?);
                if !self.eat(",") {
                    self.expect(")")?;
                    break;
                }
            }
            return Ok(Ty::Tuple(v));
        }
        if self.eat("[") {
            let t = self.ty()?;
            self.expect(";")?;
            let n = self.number()?;
            self.expect("]")?;
            return Ok(Ty::arr(t, n));
        }
        let w = self.word();
        match w.as_str() {
            "bool" => Ok(Ty::Bool),
            "u1" | "u2" | "u4" | "u8" | "u16" | "u32" | "u64" | "u128" | "u256" => {
                Ok(Ty::U(w[1..].parse().unwrap()))
            }
            "Option" => {
                self.expect("<")?;
                let t = self.ty()?;
                self.expect(">")?;
                Ok(Ty::opt(t))
            }
            "Either" => {
                self.expect("<")?;
                let l = self.ty()?;
                self.expect(",")?;
                let r = self.ty()?;
                self.expect(">")?;
                Ok(Ty::either(l, r))
            }
            "List" => {
                self.expect("<")?;
                let t = self.ty()?;
                self.expect(",")?;
                let n = self.number()?;
                self.expect(">")?;
                Ok(Ty::list(t, n))
            }
            "" => Err(format!("type expected at {}", self.i)),
            _ => Ok(Ty::Alias(w)),
        }
    }

    fn val(&mut self, t: &Ty) -> Result<Val, String> {
        self.ws();
        match t {
            Ty::Bool => {
                let w = self.word();
                match w.as_str() {
                    "true" => Ok(Val::Bool(true)),
                    "false" => Ok(Val::Bool(false)),
                    _ => Err(format!("bool expected, found `{w}`")),
                }
            }
            Ty::U(n) => {
                let w = self.word().replace('_', "");
                let x = if let Some(h) = w.strip_prefix("0x") {
                    if h.len() * 4 != *n as usize {
                        return Err(format!("hex literal `{w}` has wrong length for u{n}"));
                    }
                    U256::from_hex(h)
                } else if let Some(b) = w.strip_prefix("0b") {
                    if b.len() != *n as usize {
                        return Err(format!("bin literal `{w}` has wrong length for u{n}"));
                    }
                    U256::from_bin(b)
                } else {
                    U256::from_dec(&w)
                }
                .ok_or_else(|| format!("bad integer `{w}`"))?;
                if !x.fits(*n as usize) {
                    return Err(format!("`{w}` does not fit u{n}"));
                }
                Ok(Val::U(*n, x))
            }
            Ty::Tuple(ts) => {
                self.expect("(")?;
                let mut vs = vec![];
                for (i, et) in ts.iter().enumerate() {
                    if i > 0 {
                        self.expect(",")?;
                    }
                    vs.push(self.val(et)?);
                }
                self.eat(",");
                self.expect(")")?;
                Ok(Val::Tuple(vs))
            }
            Ty::Array(et, n) => {
                if self.peek() == Some(b'0') && **et == Ty::U(8) && *n > 0 {
                    // hex byte string
                    let w = self.word().replace('_', "");
                    let h = w.strip_prefix("0x").ok_or("hex byte string expected")?;
                    if h.len() != 2 * n {
                        return Err(format!("byte string `{w}` has wrong length for [u8; {n}]"));
                    }
                    let mut vs = vec![];
                    for k in 0..*n {
                        let b = u8::from_str_radix(&h[2 * k..2 * k + 2], 16).map_err(|e| e.to_string())?;
                        vs.push(Val::u(8, b as u128));
                    }
                    return Ok(Val::Array(vs));
                }
                self.expect("[")?;
                let mut vs = vec![];
                for i in 0..*n {
                    if i > 0 {
                        self.expect(",")?;
                    }
                    vs.push(self.val(et)?);
                }
                self.eat(",");
                self.expect("]")?;
                Ok(Val::Array(vs))
            }
            Ty::List(et, b) => {
                self.expect("list![")?;
                let mut vs = vec![];
                loop {
                    if self.eat("]") {
                        break;
                    }
                    vs.push(self.val(et)?);
                    if !self.eat(",") {
                        self.expect("]")?;
                        break;
                    }
                }
                if vs.len() >= *b {
                    return Err("list too long".into());
                }
                Ok(Val::List(vs, *b))
            }
            Ty::Option(it) => {
                if self.eat("None") {
                    Ok(Val::None)
                } else {
                    self.expect("Some(")?;
                    let v = self.val(it)?;
                    self.expect(")")?;
                    Ok(Val::Some(Box::new(v)))
                }
            }
            Ty::Either(l, r) => {
                if self.eat("Left(") {
                    let v = self.val(l)?;
                    self.expect(")")?;
                    Ok(Val::Left(Box::new(v)))
                } else {
                    self.expect("Right(")?;
                    let v = self.val(r)?;
                    self.expect(")")?;
                    Ok(Val::Right(Box::new(v)))
                }
            }
            Ty::Alias(n) => Err(format!("unresolved alias {n}")),
        }
    }
}

pub fn parse_ty(s: &str) -> Result<Ty, String> {
    let mut p = P { s: s.as_bytes(), i: 0 };
    let t = p.ty()?;
    p.ws();
    if p.i != s.len() {
        return Err(format!("trailing input at {} in `{s}`", p.i));
    }
    Ok(t)
}

/// Parse a constant of the given resolved type.
pub fn parse_val(s: &str, t: &Ty) -> Result<Val, String> {
    let mut p = P { s: s.as_bytes(), i: 0 };
    let v = p.val(t)?;
    p.ws();
    if p.i != s.len() {
        return Err(format!("trailing input at {} in `{s}`", p.i));
    }
    Ok(v)
}

pub fn is_builtin_alias(s: &str) -> bool {
    BUILTIN_ALIASES.contains(&s)
}
