//! M1 — the boundary recorder: every case goes through the public API only; each stage's
//! outcome is recorded. M6 — the redeem well-typedness walker.

use std::collections::HashSet;
use std::sync::Arc;

use simfony::simplicity::jet::Elements;
use simfony::simplicity::node::Inner;
use simfony::simplicity::RedeemNode;
use simfony::{Arguments, CompiledProgram, SatisfiedProgram, TemplateProgram, WitnessValues};

use crate::bridge::*;
use crate::tracemachine::{Trace, TraceMachine};

pub fn new_template(text: &str) -> Outcome<TemplateProgram> {
    call(|| TemplateProgram::new(text))
}

pub fn instantiate(t: &TemplateProgram, args: &Arguments, debug: bool) -> Outcome<CompiledProgram> {
    call(|| t.instantiate(args.clone(), debug))
}

#[derive(Clone, Debug)]
pub struct CommitInfo {
    pub cmr: [u8; 32],
    pub bytes: Vec<u8>,
    pub one_to_one: bool,
}

pub fn commit(c: &CompiledProgram) -> Outcome<CommitInfo> {
    match guard(|| {
        let node = c.commit();
        let arrow = node.arrow();
        CommitInfo {
            cmr: cmr_bytes(node.cmr()),
            bytes: node.encode_to_vec(),
            one_to_one: arrow.source.is_unit() && arrow.target.is_unit(),
        }
    }) {
        Ok(i) => Outcome::Ok(i),
        Err(p) => Outcome::Panic(p),
    }
}

pub fn satisfy(c: &CompiledProgram, w: &WitnessValues, env: Option<&Env>) -> Outcome<SatisfiedProgram> {
    call(|| c.satisfy_with_env(w.clone(), env))
}

#[derive(Debug)]
pub struct RedeemReport {
    pub cmr: [u8; 32],
    pub prog_bytes: Vec<u8>,
    pub wit_bytes: Vec<u8>,
    /// M6 findings on the redeem program as returned by `satisfy`
    pub m6: Vec<String>,
    pub n_witness_nodes: usize,
    pub decoded_cmr: Option<[u8; 32]>,
    pub decode: Outcome<()>,
    /// verdict of the real Bit Machine on the decoded program (on the original redeem
    /// program when decoding failed)
    pub exec: Outcome<Result<(), String>>,
    pub exec_on_decoded: bool,
    pub trace: Option<Trace>,
}

/// Walk all nodes of a redeem program once.
pub fn walk_redeem(root: &RedeemNode<Elements>, f: &mut dyn FnMut(&RedeemNode<Elements>)) {
    let mut seen: HashSet<*const RedeemNode<Elements>> = HashSet::new();
    let mut stack: Vec<&RedeemNode<Elements>> = vec![root];
    while let Some(n) = stack.pop() {
        if !seen.insert(n as *const _) {
            continue;
        }
        f(n);
        match n.inner() {
            Inner::InjL(c) | Inner::InjR(c) | Inner::Take(c) | Inner::Drop(c) => stack.push(c),
            Inner::AssertL(c, _) | Inner::AssertR(_, c) => stack.push(c),
            Inner::Comp(a, b) | Inner::Case(a, b) | Inner::Pair(a, b) | Inner::Disconnect(a, b) => {
                stack.push(a);
                stack.push(b);
            }
            Inner::Iden | Inner::Unit | Inner::Witness(_) | Inner::Fail(_) | Inner::Jet(_) | Inner::Word(_) => {}
        }
    }
}

pub fn m6_check(root: &RedeemNode<Elements>, commit_cmr: &[u8; 32]) -> (Vec<String>, usize) {
    let mut findings = vec![];
    let mut nwit = 0;
    if cmr_bytes(root.cmr()) != *commit_cmr {
        findings.push(format!(
            "redeem CMR {} differs from commit CMR {}",
            hex(&cmr_bytes(root.cmr())),
            hex(commit_cmr)
        ));
    }
    let a = root.arrow();
    if !a.source.is_unit() || !a.target.is_unit() {
        findings.push(format!("root arrow is {} -> {}, not 1 -> 1", a.source, a.target));
    }
    walk_redeem(root, &mut |n| {
        if let Inner::Witness(v) = n.inner() {
            nwit += 1;
            if !v.is_of_type(&n.arrow().target) {
                findings.push(format!(
                    "witness node of type {} holds value {} of another type",
                    n.arrow().target, v
                ));
            }
        }
    });
    (findings, nwit)
}

pub fn examine_redeem(
    sat: &SatisfiedProgram,
    commit_cmr: &[u8; 32],
    env: &Env,
    jets: Option<&mut JetRunner>,
    markers: Option<&simfony::debug::DebugSymbols>,
) -> RedeemReport {
    let redeem: &Arc<RedeemNode<Elements>> = sat.redeem();
    let (m6, nwit) = m6_check(redeem, commit_cmr);
    let enc = guard(|| redeem.encode_to_vec());
    let (prog_bytes, wit_bytes, enc_panic) = match enc {
        Ok((p, w)) => (p, w, None),
        Err(p) => (vec![], vec![], Some(p)),
    };
    let mut m6 = m6;
    let decoded = match enc_panic {
        Some(p) => {
            m6.push(format!("encode_to_vec panicked: {} @ {}", p.message, p.location));
            Outcome::Panic(p)
        }
        None => decode_redeem(&prog_bytes, &wit_bytes),
    };
    let decoded_cmr = match &decoded {
        Outcome::Ok(n) => Some(cmr_bytes(n.cmr())),
        _ => None,
    };
    let (exec, exec_on_decoded, trace) = match &decoded {
        Outcome::Ok(n) => {
            let exec = exec_redeem(n, env);
            let trace = jets.map(|j| TraceMachine::new(j, markers).run(n));
            (exec, true, trace)
        }
        _ => (exec_redeem(redeem, env), false, None),
    };
    RedeemReport {
        cmr: cmr_bytes(redeem.cmr()),
        prog_bytes,
        wit_bytes,
        m6,
        n_witness_nodes: nwit,
        decoded_cmr,
        decode: decoded.map(|_| ()),
        exec,
        exec_on_decoded,
        trace,
    }
}
