//! The harness's own program representation. Shares nothing with simfony's `parse`/`ast`.
//! It can represent ill-formed programs (needed by the near-miss mutator); the static
//! checker (`check_static`) decides well-formedness and the interpreter (`interp`) runs
//! well-formed ones.

use crate::u256::U256;

#[derive(Clone, PartialEq, Eq, Hash, Debug)]
pub enum Ty {
    Bool,
    U(u16),
    Tuple(Vec<Ty>),
    Array(Box<Ty>, usize),
    List(Box<Ty>, usize),
    Option(Box<Ty>),
    Either(Box<Ty>, Box<Ty>),
    /// user alias or builtin alias
    Alias(String),
}

impl Ty {
    pub fn unit() -> Ty {
        Ty::Tuple(vec![])
    }
    pub fn is_unit(&self) -> bool {
        matches!(self, Ty::Tuple(v) if v.is_empty())
    }
    pub fn opt(t: Ty) -> Ty {
        Ty::Option(Box::new(t))
    }
    pub fn either(l: Ty, r: Ty) -> Ty {
        Ty::Either(Box::new(l), Box::new(r))
    }
    pub fn arr(t: Ty, n: usize) -> Ty {
        Ty::Array(Box::new(t), n)
    }
    pub fn list(t: Ty, n: usize) -> Ty {
        Ty::List(Box::new(t), n)
    }
    pub fn depth(&self) -> usize {
        match self {
            Ty::Bool | Ty::U(_) | Ty::Alias(_) => 0,
            Ty::Tuple(v) => 1 + v.iter().map(Ty::depth).max().unwrap_or(0),
            Ty::Array(t, _) | Ty::List(t, _) | Ty::Option(t) => 1 + t.depth(),
            Ty::Either(l, r) => 1 + l.depth().max(r.depth()),
        }
    }
    /// Number of distinct values, saturating at `cap`.
    pub fn cardinality(&self, cap: u128) -> u128 {
        let c = match self {
            Ty::Bool => 2,
            Ty::U(n) => {
                if *n >= 64 {
                    cap
                } else {
                    1u128 << n
                }
            }
            Ty::Tuple(v) => {
                let mut c: u128 = 1;
                for t in v {
                    c = c.saturating_mul(t.cardinality(cap)).min(cap);
                }
                c
            }
            Ty::Array(t, n) => {
                let mut c: u128 = 1;
                let e = t.cardinality(cap);
                for _ in 0..*n {
                    c = c.saturating_mul(e).min(cap);
                    if c >= cap {
                        break;
                    }
                }
                c
            }
            Ty::List(t, b) => {
                let e = t.cardinality(cap);
                let mut total: u128 = 0;
                let mut c: u128 = 1;
                for _ in 0..*b {
                    total = total.saturating_add(c).min(cap);
                    c = c.saturating_mul(e).min(cap);
                    if total >= cap {
                        break;
                    }
                }
                total
            }
            Ty::Option(t) => 1 + t.cardinality(cap),
            Ty::Either(l, r) => l.cardinality(cap).saturating_add(r.cardinality(cap)),
            Ty::Alias(_) => cap,
        };
        c.min(cap)
    }
}

pub const BUILTIN_ALIASES: &[&str] = &[
    "Ctx8", "Pubkey", "Message64", "Message", "Signature", "Scalar", "Fe", "Gej", "Ge", "Point",
    "Height", "Time", "Distance", "Duration", "Lock", "Outpoint", "Confidential1", "ExplicitAsset",
    "Asset1", "ExplicitAmount", "Amount1", "ExplicitNonce", "Nonce", "TokenAmount1",
];

/// Definitions of the builtin aliases, written from the book's table (type_alias.md), except
/// `ExplicitAmount`, which the book lists as `u256` while every jet signature that uses it
/// needs 64 bits; the harness follows the jets (see DESIGN.md, "documentation mismatch").
pub fn builtin_alias(name: &str) -> Option<Ty> {
    use Ty::*;
    let u = |n: u16| U(n);
    let conf = || Tuple(vec![u(1), u(256)]);
    Some(match name {
        "Amount1" | "TokenAmount1" => Ty::either(conf(), u(64)),
        "Asset1" | "Nonce" => Ty::either(conf(), u(256)),
        "Confidential1" | "Point" => conf(),
        "Ctx8" => Tuple(vec![Ty::list(u(8), 64), Tuple(vec![u(64), u(256)])]),
        "Distance" | "Duration" => u(16),
        "ExplicitAmount" => u(64),
        "ExplicitAsset" | "ExplicitNonce" | "Fe" | "Message" | "Pubkey" | "Scalar" => u(256),
        "Ge" => Tuple(vec![u(256), u(256)]),
        "Gej" => Tuple(vec![Tuple(vec![u(256), u(256)]), u(256)]),
        "Height" | "Lock" | "Time" => u(32),
        "Message64" | "Signature" => Ty::arr(u(8), 64),
        "Outpoint" => Tuple(vec![u(256), u(32)]),
        _ => return None,
    })
}

/// Resolve aliases with the given user alias table (name -> already resolved type).
pub fn resolve_ty(t: &Ty, aliases: &dyn Fn(&str) -> Option<Ty>) -> Result<Ty, String> {
    Ok(match t {
        Ty::Bool => Ty::Bool,
        Ty::U(n) => Ty::U(*n),
        Ty::Tuple(v) => Ty::Tuple(
            v.iter()
                .map(|x| resolve_ty(x, aliases))
                .collect::<Result<Vec<_>, _>>()?,
        ),
        Ty::Array(t, n) => Ty::Array(Box::new(resolve_ty(t, aliases)?), *n),
        Ty::List(t, n) => Ty::List(Box::new(resolve_ty(t, aliases)?), *n),
        Ty::Option(t) => Ty::Option(Box::new(resolve_ty(t, aliases)?)),
        Ty::Either(l, r) => Ty::Either(
            Box::new(resolve_ty(l, aliases)?),
            Box::new(resolve_ty(r, aliases)?),
        ),
        Ty::Alias(name) => match builtin_alias(name) {
            Some(t) => t,
            None => aliases(name).ok_or_else(|| name.clone())?,
        },
    })
}

pub fn resolve_builtin(t: &Ty) -> Result<Ty, String> {
    resolve_ty(t, &|_| None)
}

pub fn render_ty(t: &Ty) -> String {
    match t {
        Ty::Bool => "bool".into(),
        Ty::U(n) => format!("u{n}"),
        Ty::Tuple(v) => match v.len() {
            0 => "()".into(),
            1 => format!("({},)", render_ty(&v[0])),
            _ => format!(
                "({})",
                v.iter().map(render_ty).collect::<Vec<_>>().join(", ")
            ),
        },
        Ty::Array(t, n) => format!("[{}; {}]", render_ty(t), n),
        Ty::List(t, n) => format!("List<{}, {}>", render_ty(t), n),
        Ty::Option(t) => format!("Option<{}>", render_ty(t)),
        Ty::Either(l, r) => format!("Either<{}, {}>", render_ty(l), render_ty(r)),
        Ty::Alias(n) => n.clone(),
    }
}

// ---------------------------------------------------------------------------------------------

#[derive(Clone, PartialEq, Eq, Hash, Debug)]
pub enum Val {
    Bool(bool),
    U(u16, U256),
    Tuple(Vec<Val>),
    Array(Vec<Val>),
    List(Vec<Val>, usize),
    None,
    Some(Box<Val>),
    Left(Box<Val>),
    Right(Box<Val>),
}

impl Val {
    pub fn unit() -> Val {
        Val::Tuple(vec![])
    }
    pub fn u(bits: u16, x: u128) -> Val {
        Val::U(bits, U256::from_u128(x))
    }
    pub fn as_u128(&self) -> u128 {
        match self {
            Val::U(_, x) => x.low_u128(),
            Val::Bool(b) => *b as u128,
            _ => panic!("not an integer: {self:?}"),
        }
    }
    pub fn as_bool(&self) -> bool {
        match self {
            Val::Bool(b) => *b,
            _ => panic!("not a bool: {self:?}"),
        }
    }
}

#[derive(Clone, Copy, PartialEq, Eq, Debug)]
pub enum IntStyle {
    Dec,
    Hex,
    Bin,
}

/// Render an integer literal in the given notation (hex only legal for widths >= 8).
pub fn render_int(bits: u16, x: &U256, style: IntStyle) -> String {
    match style {
        IntStyle::Dec => x.to_dec(),
        IntStyle::Hex if bits >= 8 => format!("0x{}", x.to_hex(bits as usize)),
        IntStyle::Hex => x.to_dec(),
        IntStyle::Bin => format!("0b{}", x.to_bin(bits as usize)),
    }
}

/// Render a value as a constant expression. `style` picks the integer notation per literal.
pub fn render_val(v: &Val, style: &mut dyn FnMut(u16) -> IntStyle) -> String {
    match v {
        Val::Bool(b) => b.to_string(),
        Val::U(bits, x) => {
            let s = style(*bits);
            render_int(*bits, x, s)
        }
        Val::Tuple(vs) => match vs.len() {
            0 => "()".into(),
            1 => format!("({},)", render_val(&vs[0], style)),
            _ => format!(
                "({})",
                vs.iter()
                    .map(|x| render_val(x, style))
                    .collect::<Vec<_>>()
                    .join(", ")
            ),
        },
        Val::Array(vs) => format!(
            "[{}]",
            vs.iter()
                .map(|x| render_val(x, style))
                .collect::<Vec<_>>()
                .join(", ")
        ),
        Val::List(vs, _) => format!(
            "list![{}]",
            vs.iter()
                .map(|x| render_val(x, style))
                .collect::<Vec<_>>()
                .join(", ")
        ),
        Val::None => "None".into(),
        Val::Some(x) => format!("Some({})", render_val(x, style)),
        Val::Left(x) => format!("Left({})", render_val(x, style)),
        Val::Right(x) => format!("Right({})", render_val(x, style)),
    }
}

pub fn render_val_dec(v: &Val) -> String {
    render_val(v, &mut |_| IntStyle::Dec)
}

/// Convert a value into an expression tree (so it can be embedded in programs and mutated).
pub fn val_to_expr(v: &Val, style: &mut dyn FnMut(u16) -> IntStyle) -> Expr {
    match v {
        Val::Bool(b) => Expr::Bool(*b),
        Val::U(bits, x) => {
            let s = style(*bits);
            Expr::Int(render_int(*bits, x, s))
        }
        Val::Tuple(vs) => Expr::Tuple(vs.iter().map(|x| val_to_expr(x, style)).collect()),
        Val::Array(vs) => Expr::Array(vs.iter().map(|x| val_to_expr(x, style)).collect()),
        Val::List(vs, _) => Expr::List(vs.iter().map(|x| val_to_expr(x, style)).collect()),
        Val::None => Expr::None_,
        Val::Some(x) => Expr::Some_(Box::new(val_to_expr(x, style))),
        Val::Left(x) => Expr::Left(Box::new(val_to_expr(x, style))),
        Val::Right(x) => Expr::Right(Box::new(val_to_expr(x, style))),
    }
}

// ---------------------------------------------------------------------------------------------

#[derive(Clone, PartialEq, Eq, Debug)]
pub enum Pat {
    Id(String),
    Ignore,
    Tuple(Vec<Pat>),
    Array(Vec<Pat>),
}

#[derive(Clone, PartialEq, Eq, Debug)]
pub enum MatchPat {
    False,
    True,
    None_,
    Some_(String, Ty),
    Left(String, Ty),
    Right(String, Ty),
}

#[derive(Clone, PartialEq, Eq, Debug)]
pub enum CallName {
    Jet(String),
    UnwrapLeft(Ty),
    UnwrapRight(Ty),
    Unwrap,
    IsNone(Ty),
    Assert,
    Panic,
    Dbg,
    Cast(Ty),
    Fn(String),
    Fold(String, usize),
    ForWhile(String),
}

impl CallName {
    /// Does simfony attach a debug symbol to calls of this kind?
    pub fn is_tracked(&self) -> bool {
        matches!(
            self,
            CallName::Jet(_)
                | CallName::UnwrapLeft(_)
                | CallName::UnwrapRight(_)
                | CallName::Unwrap
                | CallName::Assert
                | CallName::Panic
                | CallName::Dbg
        )
    }
}

#[derive(Clone, PartialEq, Eq, Debug)]
pub struct Call {
    pub name: CallName,
    pub args: Vec<Expr>,
    /// call-site id, unique per program (assigned by `Program::number_calls`)
    pub id: usize,
}

#[derive(Clone, PartialEq, Eq, Debug)]
pub struct Arm {
    pub pat: MatchPat,
    pub body: Expr,
}

#[derive(Clone, PartialEq, Eq, Debug)]
pub enum Expr {
    Bool(bool),
    /// integer literal exactly as written (`42`, `0x2a`, `0b0010_1010`, with any underscores)
    Int(String),
    Var(String),
    Witness(String),
    Param(String),
    Tuple(Vec<Expr>),
    Array(Vec<Expr>),
    List(Vec<Expr>),
    None_,
    Some_(Box<Expr>),
    Left(Box<Expr>),
    Right(Box<Expr>),
    Paren(Box<Expr>),
    Block(Vec<Stmt>, Option<Box<Expr>>),
    Match(Box<Expr>, Box<[Arm; 2]>),
    Call(Call),
    /// probe literal: filled in by a first interpretation pass (see interp::Mode::Fill)
    Hole(usize),
}

impl Expr {
    pub fn call(name: CallName, args: Vec<Expr>) -> Expr {
        Expr::Call(Call { name, args, id: 0 })
    }
    pub fn jet(name: &str, args: Vec<Expr>) -> Expr {
        Expr::call(CallName::Jet(name.to_string()), args)
    }
    pub fn var(name: &str) -> Expr {
        Expr::Var(name.to_string())
    }
    pub fn unit() -> Expr {
        Expr::Tuple(vec![])
    }
    pub fn block(stmts: Vec<Stmt>, last: Option<Expr>) -> Expr {
        Expr::Block(stmts, last.map(Box::new))
    }
    pub fn is_block(&self) -> bool {
        matches!(self, Expr::Block(..))
    }
    pub fn size(&self) -> usize {
        let mut n = 0;
        self.visit(&mut |_| n += 1);
        n
    }
    /// Pre-order visit of all sub-expressions.
    pub fn visit(&self, f: &mut dyn FnMut(&Expr)) {
        f(self);
        match self {
            Expr::Bool(_)
            | Expr::Int(_)
            | Expr::Var(_)
            | Expr::Witness(_)
            | Expr::Param(_)
            | Expr::None_
            | Expr::Hole(_) => {}
            Expr::Tuple(v) | Expr::Array(v) | Expr::List(v) => v.iter().for_each(|e| e.visit(f)),
            Expr::Some_(e) | Expr::Left(e) | Expr::Right(e) | Expr::Paren(e) => e.visit(f),
            Expr::Block(stmts, last) => {
                for s in stmts {
                    match s {
                        Stmt::Let(_, _, e) | Stmt::Expr(e) => e.visit(f),
                    }
                }
                if let Some(e) = last {
                    e.visit(f)
                }
            }
            Expr::Match(s, arms) => {
                s.visit(f);
                arms[0].body.visit(f);
                arms[1].body.visit(f);
            }
            Expr::Call(c) => c.args.iter().for_each(|e| e.visit(f)),
        }
    }
    pub fn visit_mut(&mut self, f: &mut dyn FnMut(&mut Expr)) {
        f(self);
        match self {
            Expr::Bool(_)
            | Expr::Int(_)
            | Expr::Var(_)
            | Expr::Witness(_)
            | Expr::Param(_)
            | Expr::None_
            | Expr::Hole(_) => {}
            Expr::Tuple(v) | Expr::Array(v) | Expr::List(v) => {
                v.iter_mut().for_each(|e| e.visit_mut(f))
            }
            Expr::Some_(e) | Expr::Left(e) | Expr::Right(e) | Expr::Paren(e) => e.visit_mut(f),
            Expr::Block(stmts, last) => {
                for s in stmts {
                    match s {
                        Stmt::Let(_, _, e) | Stmt::Expr(e) => e.visit_mut(f),
                    }
                }
                if let Some(e) = last {
                    e.visit_mut(f)
                }
            }
            Expr::Match(s, arms) => {
                s.visit_mut(f);
                arms[0].body.visit_mut(f);
                arms[1].body.visit_mut(f);
            }
            Expr::Call(c) => c.args.iter_mut().for_each(|e| e.visit_mut(f)),
        }
    }
}

#[derive(Clone, PartialEq, Eq, Debug)]
pub enum Stmt {
    Let(Pat, Ty, Expr),
    Expr(Expr),
}

#[derive(Clone, PartialEq, Eq, Debug)]
pub struct Func {
    pub name: String,
    pub params: Vec<(String, Ty)>,
    pub ret: Option<Ty>,
    /// always a `Expr::Block`
    pub body: Expr,
}

#[derive(Clone, PartialEq, Eq, Debug)]
pub enum Item {
    Alias(String, Ty),
    Func(Func),
    /// `mod witness { ... }` / `mod param { ... }` written verbatim
    Module(String),
}

#[derive(Clone, PartialEq, Eq, Debug, Default)]
pub struct Program {
    pub items: Vec<Item>,
    /// probe literals (`Expr::Hole`): resolved type and, once filled, value
    pub holes: Vec<Hole>,
}

#[derive(Clone, PartialEq, Eq, Debug)]
pub struct Hole {
    pub ty: Ty,
    pub val: Option<Val>,
}

impl Program {
    /// Every type written in the program text: alias definitions, parameters, results, let
    /// annotations, match-arm binders and the type arguments of calls.
    pub fn for_each_annotation(&mut self, f: &mut dyn FnMut(&mut Ty)) {
        for item in self.items.iter_mut() {
            match item {
                Item::Alias(_, t) => f(t),
                Item::Func(func) => {
                    for (_, t) in func.params.iter_mut() {
                        f(t);
                    }
                    if let Some(t) = &mut func.ret {
                        f(t);
                    }
                    func.body.visit_mut(&mut |e| match e {
                        Expr::Block(stmts, _) => {
                            for s in stmts.iter_mut() {
                                if let Stmt::Let(_, t, _) = s {
                                    f(t);
                                }
                            }
                        }
                        Expr::Match(_, arms) => {
                            for arm in arms.iter_mut() {
                                match &mut arm.pat {
                                    MatchPat::Some_(_, t) | MatchPat::Left(_, t) | MatchPat::Right(_, t) => f(t),
                                    _ => {}
                                }
                            }
                        }
                        Expr::Call(c) => match &mut c.name {
                            CallName::UnwrapLeft(t) | CallName::UnwrapRight(t) | CallName::IsNone(t) | CallName::Cast(t) => f(t),
                            _ => {}
                        },
                        _ => {}
                    });
                }
                Item::Module(_) => {}
            }
        }
    }

    pub fn funcs(&self) -> impl Iterator<Item = &Func> {
        self.items.iter().filter_map(|i| match i {
            Item::Func(f) => Some(f),
            _ => None,
        })
    }
    pub fn funcs_mut(&mut self) -> impl Iterator<Item = &mut Func> {
        self.items.iter_mut().filter_map(|i| match i {
            Item::Func(f) => Some(f),
            _ => None,
        })
    }
    pub fn main(&self) -> Option<&Func> {
        self.funcs().find(|f| f.name == "main")
    }
    /// Give every call expression a distinct id (pre-order over items).
    pub fn number_calls(&mut self) -> usize {
        let mut next = 1;
        for f in self.funcs_mut() {
            f.body.visit_mut(&mut |e| {
                if let Expr::Call(c) = e {
                    c.id = next;
                    next += 1;
                }
            });
        }
        next - 1
    }
    pub fn new_hole(&mut self, ty: Ty) -> usize {
        self.holes.push(Hole { ty, val: None });
        self.holes.len() - 1
    }
    pub fn size(&self) -> usize {
        self.funcs().map(|f| f.body.size()).sum()
    }
}

// ---------------------------------------------------------------------------------------------
// Rendering (G5)

use crate::rng::Rng;

#[derive(Clone, Debug)]
pub struct Style {
    pub nl: &'static str,
    pub indent: &'static str,
    /// out of 100: probability of a comment at a soft break
    pub comment_pct: usize,
    pub non_ascii_comments: bool,
    pub trailing_commas: bool,
    /// write `-> ()` on functions that return unit (other than main)
    pub explicit_unit_ret: bool,
    /// no optional spaces at all
    pub tight: bool,
    /// blank lines between items
    pub blank_lines: usize,
    /// put the comma after block arms
    pub comma_after_block_arm: bool,
    pub final_newline: bool,
    /// write the second arm of a match first (Right before Left, Some before None, true before false)
    pub swap_arms: bool,
    /// white space (with line breaks) in front of the first item
    pub leading_blank: bool,
    pub seed: u64,
}

impl Style {
    pub fn plain() -> Style {
        Style {
            nl: "\n",
            indent: "    ",
            comment_pct: 0,
            non_ascii_comments: false,
            trailing_commas: false,
            explicit_unit_ret: false,
            tight: false,
            blank_lines: 1,
            comma_after_block_arm: true,
            final_newline: true,
            swap_arms: false,
            leading_blank: false,
            seed: 0,
        }
    }
    pub fn random(rng: &mut Rng) -> Style {
        Style {
            nl: if rng.chance(1, 4) { "\r\n" } else { "\n" },
            indent: *rng.pick(&["    ", "\t", "  ", ""]),
            comment_pct: *rng.pick(&[0, 0, 5, 20]),
            non_ascii_comments: rng.chance(1, 2),
            trailing_commas: rng.chance(1, 2),
            explicit_unit_ret: rng.chance(1, 3),
            tight: rng.chance(1, 5),
            blank_lines: rng.below(3),
            comma_after_block_arm: rng.chance(1, 2),
            final_newline: rng.chance(3, 4),
            swap_arms: rng.chance(1, 3),
            leading_blank: rng.chance(1, 4),
            seed: rng.next(),
        }
    }
}

#[derive(Clone, Debug, Default)]
pub struct Rendered {
    pub text: String,
    /// call id -> byte range of the whole call expression
    pub call_spans: Vec<(usize, usize, usize)>,
    /// (function name, byte range of its body block)
    pub hole_count: usize,
}

impl Rendered {
    pub fn call_text(&self, id: usize) -> Option<&str> {
        self.call_spans
            .iter()
            .find(|(i, _, _)| *i == id)
            .map(|(_, a, b)| &self.text[*a..*b])
    }
}

pub struct Renderer<'a> {
    st: &'a Style,
    rng: Rng,
    out: String,
    depth: usize,
    holes: &'a [Hole],
    calls: Vec<(usize, usize, usize)>,
    in_call: usize,
}

const COMMENTS_ASCII: &[&str] = &[
    "// note",
    "/* c */",
    "/* multi\n   line */",
    "// let x: u8 = 0;",
    "/* fn main() { } */",
    "//",
    "/**/",
];
const COMMENTS_UNI: &[&str] = &[
    "// héllo wörld",
    "/* ✓ 日本語 */",
    "// 🦀 emoji",
    "/* ß\n€ */",
];

impl<'a> Renderer<'a> {
    pub fn new(st: &'a Style, holes: &'a [Hole]) -> Self {
        Renderer {
            st,
            rng: Rng::new(st.seed),
            out: String::new(),
            depth: 0,
            holes,
            calls: vec![],
            in_call: 0,
        }
    }

    fn tok(&mut self, s: &str) {
        self.out.push_str(s);
    }
    fn maybe_comment(&mut self) -> bool {
        if self.st.comment_pct > 0 && self.rng.below(100) < self.st.comment_pct {
            let pool: &[&str] = if self.st.non_ascii_comments && self.rng.chance(1, 2) {
                COMMENTS_UNI
            } else {
                COMMENTS_ASCII
            };
            let mut c = *self.rng.pick(pool);
            if self.in_call > 0 && c.starts_with("//") {
                // inside a call expression only block comments: simfony's debug symbols join
                // the lines of a call, which would let a line comment swallow the rest
                c = "/* c */";
            }
            let c = c.replace('\n', self.st.nl);
            self.out.push_str(&c);
            if c.starts_with("//") {
                self.out.push_str(self.st.nl);
            }
            true
        } else {
            false
        }
    }
    /// optional whitespace
    fn sp(&mut self) {
        if !self.st.tight {
            self.out.push(' ');
        }
        self.maybe_comment();
    }
    /// mandatory whitespace
    fn hsp(&mut self) {
        self.out.push(' ');
        if self.maybe_comment() {
            self.out.push(' ');
        }
    }
    fn nl(&mut self) {
        // now and then an empty or white-space-only line inside a block
        if self.st.blank_lines >= 2 && self.in_call == 0 && self.rng.chance(1, 5) {
            self.out.push_str(self.st.nl);
            if self.rng.chance(1, 2) {
                self.out.push_str(self.st.indent);
            }
        }
        self.out.push_str(self.st.nl);
        for _ in 0..self.depth {
            self.out.push_str(self.st.indent);
        }
        if self.maybe_comment() {
            self.out.push_str(self.st.nl);
            for _ in 0..self.depth {
                self.out.push_str(self.st.indent);
            }
        }
    }
    fn comma(&mut self) {
        self.tok(",");
        self.sp();
    }

    pub fn ty(&mut self, t: &Ty) {
        match t {
            Ty::Bool => self.tok("bool"),
            Ty::U(n) => self.tok(&format!("u{n}")),
            Ty::Tuple(v) => {
                self.tok("(");
                for (i, x) in v.iter().enumerate() {
                    if i > 0 {
                        self.comma();
                    }
                    self.ty(x);
                }
                if v.len() == 1 || (v.len() > 1 && self.st.trailing_commas) {
                    self.tok(",");
                }
                self.tok(")");
            }
            Ty::Array(t, n) => {
                self.tok("[");
                self.ty(t);
                self.tok(";");
                self.sp();
                self.tok(&n.to_string());
                self.tok("]");
            }
            Ty::List(t, n) => {
                self.tok("List<");
                self.ty(t);
                self.comma();
                self.tok(&n.to_string());
                self.tok(">");
            }
            Ty::Option(t) => {
                self.tok("Option<");
                self.ty(t);
                self.tok(">");
            }
            Ty::Either(l, r) => {
                self.tok("Either<");
                self.ty(l);
                self.comma();
                self.ty(r);
                self.tok(">");
            }
            Ty::Alias(n) => self.tok(n),
        }
    }

    fn pat(&mut self, p: &Pat) {
        match p {
            Pat::Id(s) => self.tok(s),
            Pat::Ignore => self.tok("_"),
            Pat::Tuple(v) => {
                self.tok("(");
                for (i, x) in v.iter().enumerate() {
                    if i > 0 {
                        self.comma();
                    }
                    self.pat(x);
                }
                if v.len() == 1 || (v.len() > 1 && self.st.trailing_commas) {
                    self.tok(",");
                }
                self.tok(")");
            }
            Pat::Array(v) => {
                self.tok("[");
                for (i, x) in v.iter().enumerate() {
                    if i > 0 {
                        self.comma();
                    }
                    self.pat(x);
                }
                if !v.is_empty() && self.st.trailing_commas {
                    self.tok(",");
                }
                self.tok("]");
            }
        }
    }

    fn seq(&mut self, open: &str, v: &[Expr], close: &str, singleton_comma: bool) {
        self.tok(open);
        for (i, x) in v.iter().enumerate() {
            if i > 0 {
                self.comma();
            }
            self.expr(x);
        }
        if (singleton_comma && v.len() == 1) || (!v.is_empty() && self.st.trailing_commas && (v.len() > 1 || !singleton_comma)) {
            self.tok(",");
        }
        self.tok(close);
    }

    fn call_name(&mut self, n: &CallName) {
        match n {
            CallName::Jet(j) => self.tok(&format!("jet::{j}")),
            CallName::UnwrapLeft(t) => {
                self.tok("unwrap_left::<");
                self.ty(t);
                self.tok(">");
            }
            CallName::UnwrapRight(t) => {
                self.tok("unwrap_right::<");
                self.ty(t);
                self.tok(">");
            }
            CallName::Unwrap => self.tok("unwrap"),
            CallName::IsNone(t) => {
                self.tok("is_none::<");
                self.ty(t);
                self.tok(">");
            }
            CallName::Assert => self.tok("assert!"),
            CallName::Panic => self.tok("panic!"),
            CallName::Dbg => self.tok("dbg!"),
            CallName::Cast(t) => {
                self.tok("<");
                self.ty(t);
                self.tok(">::into");
            }
            CallName::Fn(f) => self.tok(f),
            CallName::Fold(f, n) => {
                self.tok("fold::<");
                self.tok(f);
                self.comma();
                self.tok(&n.to_string());
                self.tok(">");
            }
            CallName::ForWhile(f) => {
                self.tok("for_while::<");
                self.tok(f);
                self.tok(">");
            }
        }
    }

    fn match_pat(&mut self, p: &MatchPat) {
        match p {
            MatchPat::False => self.tok("false"),
            MatchPat::True => self.tok("true"),
            MatchPat::None_ => self.tok("None"),
            MatchPat::Some_(x, t) => {
                self.tok("Some(");
                self.tok(x);
                self.tok(":");
                self.sp();
                self.ty(t);
                self.tok(")");
            }
            MatchPat::Left(x, t) => {
                self.tok("Left(");
                self.tok(x);
                self.tok(":");
                self.sp();
                self.ty(t);
                self.tok(")");
            }
            MatchPat::Right(x, t) => {
                self.tok("Right(");
                self.tok(x);
                self.tok(":");
                self.sp();
                self.ty(t);
                self.tok(")");
            }
        }
    }

    pub fn expr(&mut self, e: &Expr) {
        match e {
            Expr::Bool(b) => self.tok(if *b { "true" } else { "false" }),
            Expr::Int(s) => self.tok(s),
            Expr::Var(s) => self.tok(s),
            Expr::Witness(s) => self.tok(&format!("witness::{s}")),
            Expr::Param(s) => self.tok(&format!("param::{s}")),
            Expr::Tuple(v) => self.seq("(", v, ")", true),
            Expr::Array(v) => self.seq("[", v, "]", false),
            Expr::List(v) => self.seq("list![", v, "]", false),
            Expr::None_ => self.tok("None"),
            Expr::Some_(x) => {
                self.tok("Some(");
                self.expr(x);
                self.tok(")");
            }
            Expr::Left(x) => {
                self.tok("Left(");
                self.expr(x);
                self.tok(")");
            }
            Expr::Right(x) => {
                self.tok("Right(");
                self.expr(x);
                self.tok(")");
            }
            Expr::Paren(x) => {
                self.tok("(");
                self.expr(x);
                self.tok(")");
            }
            Expr::Block(stmts, last) => {
                self.tok("{");
                self.depth += 1;
                for s in stmts {
                    self.nl();
                    match s {
                        Stmt::Let(p, t, e) => {
                            self.tok("let");
                            self.hsp();
                            self.pat(p);
                            self.tok(":");
                            self.sp();
                            self.ty(t);
                            self.sp();
                            self.tok("=");
                            self.sp();
                            self.expr(e);
                        }
                        Stmt::Expr(e) => self.expr(e),
                    }
                    self.tok(";");
                }
                if let Some(e) = last {
                    self.nl();
                    self.expr(e);
                }
                self.depth -= 1;
                if !stmts.is_empty() || last.is_some() {
                    self.nl();
                }
                self.tok("}");
            }
            Expr::Match(s, arms) => {
                self.tok("match");
                self.hsp();
                self.expr(s);
                self.sp();
                self.tok("{");
                self.depth += 1;
                let order: [usize; 2] = if self.st.swap_arms && self.rng.chance(1, 2) { [1, 0] } else { [0, 1] };
                for arm in order.iter().map(|k| &arms[*k]) {
                    self.nl();
                    self.match_pat(&arm.pat);
                    self.sp();
                    self.tok("=>");
                    self.sp();
                    self.expr(&arm.body);
                    if !arm.body.is_block() || self.st.comma_after_block_arm {
                        self.tok(",");
                    }
                }
                self.depth -= 1;
                self.nl();
                self.tok("}");
            }
            Expr::Call(c) => {
                let start = self.out.len();
                self.in_call += 1;
                self.call_name(&c.name);
                self.tok("(");
                for (i, x) in c.args.iter().enumerate() {
                    if i > 0 {
                        self.comma();
                    }
                    self.expr(x);
                }
                self.tok(")");
                self.in_call -= 1;
                self.calls.push((c.id, start, self.out.len()));
            }
            Expr::Hole(i) => {
                let v = self.holes.get(*i).and_then(|h| h.val.clone());
                match v {
                    Some(v) => {
                        let s = render_val_dec(&v);
                        self.tok(&s)
                    }
                    None => self.tok("0"),
                }
            }
        }
    }

    pub fn func(&mut self, f: &Func) {
        self.tok("fn");
        self.hsp();
        self.tok(&f.name);
        self.tok("(");
        for (i, (n, t)) in f.params.iter().enumerate() {
            if i > 0 {
                self.comma();
            }
            self.tok(n);
            self.tok(":");
            self.sp();
            self.ty(t);
        }
        self.tok(")");
        match &f.ret {
            Some(t) => {
                self.sp();
                self.tok("->");
                self.sp();
                self.ty(t);
            }
            None if self.st.explicit_unit_ret && f.name != "main" => {
                self.sp();
                self.tok("->");
                self.sp();
                self.tok("()");
            }
            None => {}
        }
        self.sp();
        self.expr(&f.body);
    }

    pub fn program(mut self, p: &Program) -> Rendered {
        if self.st.leading_blank {
            let lead = [self.st.nl, " ", self.st.nl];
            for part in lead.iter().take(1 + (self.st.seed % 3) as usize) {
                self.out.push_str(part);
            }
        }
        for (i, item) in p.items.iter().enumerate() {
            if i > 0 {
                for _ in 0..=self.st.blank_lines {
                    self.out.push_str(self.st.nl);
                }
            }
            match item {
                Item::Alias(n, t) => {
                    self.tok("type");
                    self.hsp();
                    self.tok(n);
                    self.sp();
                    self.tok("=");
                    self.sp();
                    self.ty(t);
                    self.tok(";");
                }
                Item::Func(f) => self.func(f),
                Item::Module(text) => self.tok(text),
            }
        }
        // a comment as the very last token: followed by a line break or by the end of input
        if self.st.comment_pct > 0 && self.st.seed % 3 != 1 {
            self.out.push_str(if self.st.seed % 2 == 0 { " // end" } else { " /* end */" });
        }
        if self.st.final_newline {
            self.out.push_str(self.st.nl);
        }
        Rendered {
            text: self.out,
            call_spans: self.calls,
            hole_count: p.holes.len(),
        }
    }
}

pub fn render(p: &Program, st: &Style) -> Rendered {
    Renderer::new(st, &p.holes).program(p)
}

pub fn render_plain(p: &Program) -> String {
    render(p, &Style::plain()).text
}

pub fn render_expr_plain(e: &Expr) -> String {
    let st = Style::plain();
    let mut r = Renderer::new(&st, &[]);
    r.expr(e);
    r.out
}
