//! M7 — independent static checker: the documented static rules over the harness's own AST.
//! Shares no code with simfony's `ast.rs`. Classifies a program as well-formed, ill-formed
//! (with the rule that is broken) or unspecified (the book leaves the case open).

use std::collections::{HashMap, HashSet};

use crate::ast::*;
use crate::golden::Golden;
use crate::interp::{parse_int_literal, scrutinee_type};
use crate::layout::layout_type;

#[derive(Clone, Debug, PartialEq, Eq)]
pub enum Verdict {
    WellFormed,
    IllFormed(String),
    Unspecified(String),
}

enum Stop {
    Ill(String),
    Unspec(String),
}

type R<T> = Result<T, Stop>;

fn ill<T>(rule: &str) -> R<T> {
    Err(Stop::Ill(rule.to_string()))
}

struct FnSig {
    params: Vec<Ty>,
    ret: Ty,
}

struct Checker<'a> {
    golden: &'a Golden,
    aliases: HashMap<String, Ty>,
    funcs: HashMap<String, FnSig>,
    witnesses: HashSet<String>,
    params: HashMap<String, Ty>,
    in_main: bool,
    scopes: Vec<Vec<(String, Ty)>>,
    holes: &'a [Hole],
}

fn valid_bound(b: usize) -> bool {
    b >= 2 && b.is_power_of_two()
}

impl<'a> Checker<'a> {
    fn resolve(&self, t: &Ty) -> R<Ty> {
        // list bounds must be powers of two greater than one
        fn bounds_ok(t: &Ty) -> bool {
            match t {
                Ty::List(e, b) => valid_bound(*b) && bounds_ok(e),
                Ty::Tuple(v) => v.iter().all(bounds_ok),
                Ty::Array(e, _) | Ty::Option(e) => bounds_ok(e),
                Ty::Either(l, r) => bounds_ok(l) && bounds_ok(r),
                _ => true,
            }
        }
        if !bounds_ok(t) {
            return ill("list bound is a power of two greater than one");
        }
        resolve_ty(t, &|k| self.aliases.get(k).cloned()).map_err(|_| Stop::Ill("type aliases are defined before use".into()))
    }

    fn lookup(&self, name: &str) -> Option<&Ty> {
        for s in self.scopes.iter().rev() {
            for (n, t) in s.iter().rev() {
                if n == name {
                    return Some(t);
                }
            }
        }
        None
    }

    fn bind_pattern(&mut self, p: &Pat, t: &Ty, seen: &mut Vec<String>) -> R<()> {
        match (p, t) {
            (Pat::Ignore, _) => Ok(()),
            (Pat::Id(n), _) => {
                if seen.contains(n) {
                    return ill("a pattern binds each name once");
                }
                seen.push(n.clone());
                self.scopes.last_mut().unwrap().push((n.clone(), t.clone()));
                Ok(())
            }
            (Pat::Tuple(ps), Ty::Tuple(ts)) => {
                if ps.len() != ts.len() {
                    return ill("tuple pattern has as many components as the tuple type");
                }
                for (p, t) in ps.iter().zip(ts) {
                    self.bind_pattern(p, t, seen)?;
                }
                Ok(())
            }
            (Pat::Array(ps), Ty::Array(e, n)) => {
                if ps.len() != *n {
                    return ill("array pattern has as many elements as the array type");
                }
                for p in ps {
                    self.bind_pattern(p, e, seen)?;
                }
                Ok(())
            }
            _ => ill("pattern shape matches the type"),
        }
    }

    fn args(&mut self, args: &[Expr], tys: &[Ty]) -> R<()> {
        if args.len() != tys.len() {
            return ill("a call has one argument per parameter");
        }
        for (a, t) in args.iter().zip(tys) {
            self.expr(a, t)?;
        }
        Ok(())
    }

    fn expr(&mut self, e: &Expr, t: &Ty) -> R<()> {
        match e {
            Expr::Bool(_) => {
                if *t == Ty::Bool {
                    Ok(())
                } else {
                    ill("a Boolean literal has type bool")
                }
            }
            Expr::Int(text) => match t {
                Ty::U(n) => {
                    if parse_int_literal(text, *n).is_some() {
                        Ok(())
                    } else {
                        ill("an integer literal fits its type (value, digit count)")
                    }
                }
                Ty::Array(et, n) if **et == Ty::U(8) => {
                    let s = text.replace('_', "");
                    match s.strip_prefix("0x") {
                        Some(h) if h.len() == 2 * n && *n > 0 && h.chars().all(|c| c.is_ascii_hexdigit()) => Ok(()),
                        _ => ill("a hex byte string has two digits per byte"),
                    }
                }
                _ => ill("an integer literal has an integer type"),
            },
            Expr::Hole(i) => match self.holes.get(*i) {
                Some(h) if h.ty == *t => Ok(()),
                _ => ill("probe literal type"),
            },
            Expr::Var(n) => match self.lookup(n) {
                None => ill("variables are defined before use and in scope"),
                Some(vt) => {
                    if vt == t {
                        Ok(())
                    } else {
                        ill("a variable has the type its context demands")
                    }
                }
            },
            Expr::Witness(n) => {
                if !self.in_main {
                    return ill("witness expressions occur only inside main");
                }
                if !self.witnesses.insert(n.clone()) {
                    return ill("each witness name is used once");
                }
                Ok(())
            }
            Expr::Param(n) => match self.params.get(n) {
                Some(pt) if pt != t => ill("a parameter has one type"),
                Some(_) => Ok(()),
                None => {
                    self.params.insert(n.clone(), t.clone());
                    Ok(())
                }
            },
            Expr::Tuple(es) => match t {
                Ty::Tuple(ts) if ts.len() == es.len() => {
                    for (e, t) in es.iter().zip(ts) {
                        self.expr(e, t)?;
                    }
                    Ok(())
                }
                Ty::Tuple(_) => ill("a tuple expression has as many components as its type"),
                _ => ill("a tuple expression has a tuple type"),
            },
            Expr::Array(es) => match t {
                Ty::Array(et, n) if *n == es.len() => {
                    for e in es {
                        self.expr(e, et)?;
                    }
                    Ok(())
                }
                Ty::Array(..) => ill("an array expression has as many elements as its type"),
                _ => ill("an array expression has an array type"),
            },
            Expr::List(es) => match t {
                Ty::List(et, b) if es.len() < *b => {
                    for e in es {
                        self.expr(e, et)?;
                    }
                    Ok(())
                }
                Ty::List(..) => ill("a list literal holds fewer elements than its bound"),
                _ => ill("a list expression has a list type"),
            },
            Expr::None_ => match t {
                Ty::Option(_) => Ok(()),
                _ => ill("None has an option type"),
            },
            Expr::Some_(x) => match t {
                Ty::Option(it) => self.expr(x, it),
                _ => ill("Some(..) has an option type"),
            },
            Expr::Left(x) => match t {
                Ty::Either(l, _) => self.expr(x, l),
                _ => ill("Left(..) has an either type"),
            },
            Expr::Right(x) => match t {
                Ty::Either(_, r) => self.expr(x, r),
                _ => ill("Right(..) has an either type"),
            },
            Expr::Paren(x) => self.expr(x, t),
            Expr::Block(stmts, last) => {
                self.scopes.push(vec![]);
                let r = (|| {
                    for s in stmts {
                        match s {
                            Stmt::Let(p, ty, e) => {
                                let rt = self.resolve(ty)?;
                                self.expr(e, &rt)?;
                                let mut seen = vec![];
                                self.bind_pattern(p, &rt, &mut seen)?;
                            }
                            Stmt::Expr(e) => self.expr(e, &Ty::unit())?,
                        }
                    }
                    match last {
                        Some(e) => self.expr(e, t),
                        None => {
                            if t.is_unit() {
                                Ok(())
                            } else {
                                ill("a block without final expression has the unit type")
                            }
                        }
                    }
                })();
                self.scopes.pop();
                r
            }
            Expr::Match(scrut, arms) => {
                let sty = match scrutinee_type(&arms[0].pat, &arms[1].pat) {
                    Some(s) => s,
                    None => return ill("the two match arms are complementary patterns"),
                };
                let sty = self.resolve(&sty)?;
                self.expr(scrut, &sty)?;
                for arm in arms.iter() {
                    self.scopes.push(vec![]);
                    let r = (|| {
                        match &arm.pat {
                            MatchPat::Some_(n, pt) | MatchPat::Left(n, pt) | MatchPat::Right(n, pt) => {
                                let rt = self.resolve(pt)?;
                                self.scopes.last_mut().unwrap().push((n.clone(), rt));
                            }
                            _ => {}
                        }
                        self.expr(&arm.body, t)
                    })();
                    self.scopes.pop();
                    r?;
                }
                Ok(())
            }
            Expr::Call(c) => self.call(c, t),
        }
    }

    fn call(&mut self, c: &Call, t: &Ty) -> R<()> {
        match &c.name {
            CallName::Jet(name) => {
                let sig = match self.golden.get(name) {
                    Some(s) if name != "verify" && name != "check_sig_verify" => s.clone(),
                    _ => return ill("the jet exists and is not reserved"),
                };
                if c.args.len() != sig.rparams.len() {
                    return ill("a call has one argument per parameter");
                }
                if sig.rret != *t {
                    return ill("a jet call has the jet's result type");
                }
                self.args(&c.args, &sig.rparams)
            }
            CallName::UnwrapLeft(r) => {
                let r = self.resolve(r)?;
                self.args(&c.args, &[Ty::either(t.clone(), r)])
            }
            CallName::UnwrapRight(l) => {
                let l = self.resolve(l)?;
                self.args(&c.args, &[Ty::either(l, t.clone())])
            }
            CallName::Unwrap => self.args(&c.args, &[Ty::opt(t.clone())]),
            CallName::IsNone(x) => {
                let x = self.resolve(x)?;
                if c.args.len() != 1 {
                    return ill("a call has one argument per parameter");
                }
                if *t != Ty::Bool {
                    return ill("is_none returns bool");
                }
                self.args(&c.args, &[Ty::opt(x)])
            }
            CallName::Assert => {
                if c.args.len() != 1 {
                    return ill("a call has one argument per parameter");
                }
                if !t.is_unit() {
                    return ill("assert! returns unit");
                }
                self.args(&c.args, &[Ty::Bool])
            }
            CallName::Panic => self.args(&c.args, &[]),
            CallName::Dbg => self.args(&c.args, &[t.clone()]),
            CallName::Cast(s) => {
                let s = self.resolve(s)?;
                if layout_type(&s) != layout_type(t) {
                    return ill("casts connect structurally equal types");
                }
                self.args(&c.args, &[s])
            }
            CallName::Fn(name) => {
                let (params, ret) = match self.funcs.get(name) {
                    Some(f) => (f.params.clone(), f.ret.clone()),
                    None => return ill("functions are defined before use"),
                };
                if c.args.len() != params.len() {
                    return ill("a call has one argument per parameter");
                }
                if ret != *t {
                    return ill("a function call has the function's result type");
                }
                self.args(&c.args, &params)
            }
            CallName::Fold(name, bound) => {
                let (params, ret) = match self.funcs.get(name) {
                    Some(f) => (f.params.clone(), f.ret.clone()),
                    None => return ill("functions are defined before use"),
                };
                if !valid_bound(*bound) {
                    return ill("list bound is a power of two greater than one");
                }
                if params.len() != 2 || params[1] != ret {
                    return ill("a fold function has the signature fn(E, A) -> A");
                }
                if c.args.len() != 2 {
                    return ill("a call has one argument per parameter");
                }
                if ret != *t {
                    return ill("a fold has the accumulator type");
                }
                self.args(&c.args, &[Ty::list(params[0].clone(), *bound), params[1].clone()])
            }
            CallName::ForWhile(name) => {
                let (params, ret) = match self.funcs.get(name) {
                    Some(f) => (f.params.clone(), f.ret.clone()),
                    None => return ill("functions are defined before use"),
                };
                let ok = params.len() == 3
                    && matches!(&ret, Ty::Either(_, a) if **a == params[0])
                    && matches!(params[2], Ty::U(1) | Ty::U(2) | Ty::U(4) | Ty::U(8) | Ty::U(16));
                if !ok {
                    return ill("a loop function has the signature fn(A, C, u{1,2,4,8,16}) -> Either<B, A>");
                }
                if c.args.len() != 2 {
                    return ill("a call has one argument per parameter");
                }
                if ret != *t {
                    return ill("a loop has the type Either<B, A>");
                }
                self.args(&c.args, &[params[0].clone(), params[1].clone()])
            }
        }
    }
}

pub fn check_program(p: &Program, golden: &Golden) -> Verdict {
    let mut ck = Checker {
        golden,
        aliases: HashMap::new(),
        funcs: HashMap::new(),
        witnesses: HashSet::new(),
        params: HashMap::new(),
        in_main: false,
        scopes: vec![],
        holes: &p.holes,
    };
    let mut mains = 0;
    let unspecified: Option<String> = None;
    let r: R<()> = (|| {
        for item in &p.items {
            match item {
                Item::Alias(n, t) => {
                    let rt = ck.resolve(t)?;
                    if ck.aliases.insert(n.clone(), rt).is_some() {
                        return Err(Stop::Unspec("a type alias is defined twice".into()));
                    }
                }
                Item::Module(_) => {}
                Item::Func(f) => {
                    if f.name == "main" {
                        mains += 1;
                        if !f.params.is_empty() {
                            return ill("main has no parameters");
                        }
                        if let Some(t) = &f.ret {
                            if !ck.resolve(t)?.is_unit() {
                                return ill("main has no result");
                            }
                        }
                        ck.in_main = true;
                        ck.scopes = vec![vec![]];
                        let r = ck.expr(&f.body, &Ty::unit());
                        ck.in_main = false;
                        r?;
                    } else {
                        let mut names = HashSet::new();
                        let mut ptys = vec![];
                        ck.scopes = vec![vec![]];
                        for (n, t) in &f.params {
                            let rt = ck.resolve(t)?;
                            if !names.insert(n.clone()) {
                                return Err(Stop::Unspec("two function parameters share a name".into()));
                            }
                            ck.scopes[0].push((n.clone(), rt.clone()));
                            ptys.push(rt);
                        }
                        let ret = match &f.ret {
                            Some(t) => ck.resolve(t)?,
                            None => Ty::unit(),
                        };
                        if ck.funcs.contains_key(&f.name) {
                            return Err(Stop::Unspec("a function is defined twice".into()));
                        }
                        ck.expr(&f.body, &ret)?;
                        ck.funcs.insert(f.name.clone(), FnSig { params: ptys, ret });
                    }
                }
            }
        }
        Ok(())
    })();
    match r {
        Err(Stop::Ill(rule)) => return Verdict::IllFormed(rule),
        Err(Stop::Unspec(u)) => return Verdict::Unspecified(u),
        Ok(()) => {}
    }
    if mains == 0 {
        return Verdict::IllFormed("main exists".into());
    }
    if mains > 1 {
        return Verdict::IllFormed("main exists once".into());
    }
    match unspecified {
        Some(u) => Verdict::Unspecified(u),
        None => Verdict::WellFormed,
    }
}
