//! Minimal 256-bit unsigned integer (big-endian bytes), independent of simfony::num.

#[derive(Clone, Copy, PartialEq, Eq, Hash, PartialOrd, Ord, Debug)]
pub struct U256(pub [u8; 32]);

impl U256 {
    pub const ZERO: U256 = U256([0; 32]);

    pub fn from_u128(x: u128) -> Self {
        let mut b = [0u8; 32];
        b[16..].copy_from_slice(&x.to_be_bytes());
        U256(b)
    }

    pub fn low_u128(&self) -> u128 {
        u128::from_be_bytes(self.0[16..].try_into().unwrap())
    }

    pub fn fits_u128(&self) -> bool {
        self.0[..16].iter().all(|b| *b == 0)
    }

    /// Number of significant bits.
    pub fn bit_len(&self) -> usize {
        for (i, b) in self.0.iter().enumerate() {
            if *b != 0 {
                return (32 - i) * 8 - b.leading_zeros() as usize;
            }
        }
        0
    }

    pub fn fits(&self, bits: usize) -> bool {
        self.bit_len() <= bits
    }

    /// Bit `i` counted from the most significant bit of a `width`-bit integer.
    pub fn bit_msb(&self, width: usize, i: usize) -> bool {
        let pos = 256 - width + i; // position from the MSB of the 256-bit string
        (self.0[pos / 8] >> (7 - pos % 8)) & 1 == 1
    }

    pub fn from_bits_msb(bits: &[bool]) -> Self {
        let mut b = [0u8; 32];
        let off = 256 - bits.len();
        for (i, bit) in bits.iter().enumerate() {
            if *bit {
                let pos = off + i;
                b[pos / 8] |= 1 << (7 - pos % 8);
            }
        }
        U256(b)
    }

    /// Parse a decimal digit string (digits only). None on overflow or bad digit or empty.
    pub fn from_dec(s: &str) -> Option<Self> {
        if s.is_empty() {
            return None;
        }
        let mut b = [0u8; 32];
        for ch in s.chars() {
            let d = ch.to_digit(10)?;
            let mut carry = d;
            for byte in b.iter_mut().rev() {
                let v = (*byte as u32) * 10 + carry;
                *byte = (v & 0xff) as u8;
                carry = v >> 8;
            }
            if carry != 0 {
                return None;
            }
        }
        Some(U256(b))
    }

    pub fn from_hex(s: &str) -> Option<Self> {
        if s.is_empty() || s.len() > 64 {
            return None;
        }
        let mut bits = Vec::new();
        for ch in s.chars() {
            let d = ch.to_digit(16)?;
            for k in (0..4).rev() {
                bits.push((d >> k) & 1 == 1);
            }
        }
        Some(Self::from_bits_msb(&bits))
    }

    pub fn from_bin(s: &str) -> Option<Self> {
        if s.is_empty() || s.len() > 256 {
            return None;
        }
        let mut bits = Vec::new();
        for ch in s.chars() {
            match ch {
                '0' => bits.push(false),
                '1' => bits.push(true),
                _ => return None,
            }
        }
        Some(Self::from_bits_msb(&bits))
    }

    pub fn to_dec(&self) -> String {
        let mut b = self.0;
        let mut digits = Vec::new();
        loop {
            let mut rem = 0u32;
            let mut all_zero = true;
            for byte in b.iter_mut() {
                let v = rem * 256 + *byte as u32;
                *byte = (v / 10) as u8;
                rem = v % 10;
                if *byte != 0 {
                    all_zero = false;
                }
            }
            digits.push((b'0' + rem as u8) as char);
            if all_zero {
                break;
            }
        }
        digits.iter().rev().collect()
    }

    /// Hex digits of a `width`-bit integer (width multiple of 4).
    pub fn to_hex(&self, width: usize) -> String {
        let mut s = String::new();
        for i in 0..width / 4 {
            let mut d = 0;
            for k in 0..4 {
                d = d * 2 + self.bit_msb(width, i * 4 + k) as u32;
            }
            s.push(std::char::from_digit(d, 16).unwrap());
        }
        s
    }

    pub fn to_bin(&self, width: usize) -> String {
        (0..width).map(|i| if self.bit_msb(width, i) { '1' } else { '0' }).collect()
    }

    /// All ones in the low `bits` bits.
    pub fn max_of(bits: usize) -> Self {
        Self::from_bits_msb(&vec![true; bits])
    }

    /// 2^k (k < 256)
    pub fn pow2(k: usize) -> Self {
        let mut b = [0u8; 32];
        let pos = 255 - k;
        b[pos / 8] |= 1 << (7 - pos % 8);
        U256(b)
    }

    pub fn wrapping_add(&self, o: &U256) -> (U256, bool) {
        let mut r = [0u8; 32];
        let mut carry = 0u16;
        for i in (0..32).rev() {
            let v = self.0[i] as u16 + o.0[i] as u16 + carry;
            r[i] = v as u8;
            carry = v >> 8;
        }
        (U256(r), carry != 0)
    }

    pub fn wrapping_sub(&self, o: &U256) -> (U256, bool) {
        let mut r = [0u8; 32];
        let mut borrow = 0i16;
        for i in (0..32).rev() {
            let v = self.0[i] as i16 - o.0[i] as i16 - borrow;
            if v < 0 {
                r[i] = (v + 256) as u8;
                borrow = 1;
            } else {
                r[i] = v as u8;
                borrow = 0;
            }
        }
        (U256(r), borrow != 0)
    }
}
