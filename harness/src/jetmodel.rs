//! Native reference models of the arithmetic, comparison and bit-logic jets (closed-form
//! meaning), one definition per family, instantiated per width from the jet's name.
//! Arguments are flattened to their integer leaves in written order, so the models also fix
//! the *order* in which arguments must reach the jet.

use crate::ast::{Ty, Val};
use crate::golden::JetSig;
use crate::u256::U256;

fn flatten(v: &Val, out: &mut Vec<(u32, u128)>) -> bool {
    match v {
        Val::Bool(b) => out.push((1, *b as u128)),
        Val::U(n, x) => {
            if *n > 128 {
                return false;
            }
            out.push((*n as u32, x.low_u128()))
        }
        Val::Tuple(vs) | Val::Array(vs) => {
            for x in vs {
                if !flatten(x, out) {
                    return false;
                }
            }
        }
        _ => return false,
    }
    true
}

/// Build a value of type `t` from a queue of integers (one per integer/bool leaf).
fn unflatten(t: &Ty, q: &mut std::collections::VecDeque<u128>) -> Option<Val> {
    Some(match t {
        Ty::Bool => Val::Bool(q.pop_front()? != 0),
        Ty::U(n) => Val::U(*n, U256::from_u128(mask(q.pop_front()?, *n as u32))),
        Ty::Tuple(ts) => Val::Tuple(ts.iter().map(|t| unflatten(t, q)).collect::<Option<Vec<_>>>()?),
        Ty::Array(t, n) => Val::Array((0..*n).map(|_| unflatten(t, q)).collect::<Option<Vec<_>>>()?),
        _ => return None,
    })
}

fn mask(x: u128, n: u32) -> u128 {
    if n >= 128 {
        x
    } else {
        x & ((1u128 << n) - 1)
    }
}

fn ones(n: u32) -> u128 {
    mask(u128::MAX, n)
}

/// Split `name` into (family, numeric suffixes).
fn split_name(name: &str) -> (String, Vec<u32>) {
    let parts: Vec<&str> = name.split('_').collect();
    let mut nums = vec![];
    let mut fam = vec![];
    for p in parts {
        match p.parse::<u32>() {
            Ok(n) => nums.push(n),
            Err(_) => fam.push(p),
        }
    }
    (fam.join("_"), nums)
}

/// Some(Some(v)) = modelled result, Some(None) = modelled failure, None = no model.
pub fn model(sig: &JetSig, args: &[Val]) -> Option<Option<Val>> {
    let (fam, nums) = split_name(&sig.name);
    let mut a: Vec<(u32, u128)> = vec![];
    for v in args {
        if !flatten(v, &mut a) {
            return None;
        }
    }
    let x = |i: usize| a[i].1;
    let n = *nums.first().unwrap_or(&0);
    let mut out: Vec<u128> = vec![];
    match (fam.as_str(), nums.len()) {
        ("low", 1) => out.push(0),
        ("high", 1) => out.push(ones(n)),
        ("one", 1) => out.push(1),
        ("complement", 1) => out.push(!x(0)),
        ("and", 1) => out.push(x(0) & x(1)),
        ("or", 1) => out.push(x(0) | x(1)),
        ("xor", 1) => out.push(x(0) ^ x(1)),
        ("xor_xor", 1) => out.push(x(0) ^ x(1) ^ x(2)),
        ("maj", 1) => out.push((x(0) & x(1)) | (x(0) & x(2)) | (x(1) & x(2))),
        ("ch", 1) => out.push((x(0) & x(1)) | (!x(0) & x(2))),
        ("some", 1) => out.push((x(0) != 0) as u128),
        ("all", 1) => out.push((x(0) == ones(n)) as u128),
        ("eq", 1) if n <= 128 => out.push((x(0) == x(1)) as u128),
        ("is_zero", 1) => out.push((x(0) == 0) as u128),
        ("is_one", 1) => out.push((x(0) == 1) as u128),
        ("le", 1) => out.push((x(0) <= x(1)) as u128),
        ("lt", 1) => out.push((x(0) < x(1)) as u128),
        ("min", 1) => out.push(x(0).min(x(1))),
        ("max", 1) => out.push(x(0).max(x(1))),
        ("median", 1) => {
            let mut v = [x(0), x(1), x(2)];
            v.sort();
            out.push(v[1])
        }
        ("add", 1) => {
            let s = x(0) + x(1);
            out.push(s >> n);
            out.push(s);
        }
        ("full_add", 1) => {
            let s = x(0) + x(1) + x(2);
            out.push(s >> n);
            out.push(s);
        }
        ("increment", 1) => {
            let s = x(0) + 1;
            out.push(s >> n);
            out.push(s);
        }
        ("full_increment", 1) => {
            let s = x(0) + x(1);
            out.push(s >> n);
            out.push(s);
        }
        ("subtract", 1) => {
            out.push((x(0) < x(1)) as u128);
            out.push(x(0).wrapping_sub(x(1)));
        }
        ("full_subtract", 1) => {
            let b = x(0);
            out.push((x(1) < x(2) + b) as u128);
            out.push(x(1).wrapping_sub(x(2)).wrapping_sub(b));
        }
        ("decrement", 1) => {
            out.push((x(0) == 0) as u128);
            out.push(x(0).wrapping_sub(1));
        }
        ("full_decrement", 1) => {
            out.push((x(1) < x(0)) as u128);
            out.push(x(1).wrapping_sub(x(0)));
        }
        ("negate", 1) => {
            out.push((x(0) != 0) as u128);
            out.push(0u128.wrapping_sub(x(0)));
        }
        ("multiply", 1) => out.push(x(0) * x(1)),
        ("full_multiply", 1) => out.push(x(0) * x(1) + x(2) + x(3)),
        ("divide", 1) => out.push(if x(1) == 0 { 0 } else { x(0) / x(1) }),
        ("modulo", 1) => out.push(if x(1) == 0 { x(0) } else { x(0) % x(1) }),
        ("div_mod", 1) => {
            out.push(if x(1) == 0 { 0 } else { x(0) / x(1) });
            out.push(if x(1) == 0 { x(0) } else { x(0) % x(1) });
        }
        ("divides", 1) => out.push(if x(0) == 0 { (x(1) == 0) as u128 } else { (x(1) % x(0) == 0) as u128 }),
        ("left_shift", 1) | ("right_shift", 1) | ("left_shift_with", 1) | ("right_shift_with", 1) => {
            let with = fam.ends_with("with");
            let (fill, amt, v) = if with { (x(0), x(1), x(2)) } else { (0, x(0), x(1)) };
            let amt = amt.min(n as u128) as u32;
            let left = fam.starts_with("left");
            let fillbits = if fill != 0 { ones(amt) } else { 0 };
            let r = if amt >= n {
                if fill != 0 {
                    ones(n)
                } else {
                    0
                }
            } else if left {
                (v << amt) | fillbits
            } else {
                (v >> amt) | (fillbits << (n - amt))
            };
            out.push(r)
        }
        ("left_rotate", 1) | ("right_rotate", 1) => {
            let amt = (x(0) % n as u128) as u32;
            let v = x(1);
            let r = if amt == 0 {
                v
            } else if fam.starts_with("left") {
                (v << amt) | (v >> (n - amt))
            } else {
                (v >> amt) | (v << (n - amt))
            };
            out.push(r)
        }
        ("leftmost", 2) => out.push(x(0) >> (nums[0] - nums[1])),
        ("rightmost", 2) => out.push(x(0)),
        ("left_pad_low", 2) => out.push(x(0)),
        ("left_pad_high", 2) => out.push(x(0) | (ones(nums[1] - nums[0]) << nums[0])),
        ("right_pad_low", 2) => out.push(x(0) << (nums[1] - nums[0])),
        ("right_pad_high", 2) => out.push((x(0) << (nums[1] - nums[0])) | ones(nums[1] - nums[0])),
        ("left_extend", 2) => {
            let msb = (x(0) >> (nums[0] - 1)) & 1;
            out.push(if msb == 1 { x(0) | (ones(nums[1] - nums[0]) << nums[0]) } else { x(0) })
        }
        ("right_extend", 2) => {
            let lsb = x(0) & 1;
            let sh = nums[1] - nums[0];
            out.push((x(0) << sh) | if lsb == 1 { ones(sh) } else { 0 })
        }
        ("full_left_shift", 2) | ("full_right_shift", 2) => {
            // pure regrouping of the concatenated bits
            if a.len() != 2 || a[0].0 + a[1].0 > 128 {
                return None;
            }
            let total = a[0].0 + a[1].0;
            let cat = (a[0].1 << a[1].0) | a[1].1;
            let (w0, w1) = if fam == "full_left_shift" { (nums[1], nums[0]) } else { (nums[0], nums[1]) };
            if w0 + w1 != total {
                return None;
            }
            out.push(cat >> w1);
            out.push(mask(cat, w1));
        }
        _ => return None,
    }
    let mut q: std::collections::VecDeque<u128> = out.into();
    let v = unflatten(&sig.rret, &mut q)?;
    if !q.is_empty() {
        return None;
    }
    Some(Some(v))
}
