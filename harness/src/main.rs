#![allow(dead_code)]
mod ast;
mod bridge;
mod check_static;
mod gen;
mod mutate_ast;
mod golden;
mod interp;
mod jetmodel;
mod layout;
mod mutate_text;
mod pipeline;
mod props;
mod rng;
mod textparse;
mod tracemachine;
mod u256;
mod vals;

use props::common::{Ctx, Report};

fn arg(name: &str) -> Option<String> {
    let a: Vec<String> = std::env::args().collect();
    a.iter().position(|x| x == name).and_then(|i| a.get(i + 1).cloned())
}

fn real_main() {
    let a: Vec<String> = std::env::args().collect();
    let cmd = a.get(1).cloned().unwrap_or_default();
    if cmd == "gen-golden" {
        use simfony::simplicity::jet::Elements;
        for jet in Elements::ALL {
            let src: Vec<String> = simfony::jet::source_type(jet).iter().map(|t| t.to_string()).collect();
            let tgt = simfony::jet::target_type(jet).to_string();
            println!("{}\t{}\t{}", jet, src.join(" | "), tgt);
        }
        return;
    }
    if cmd == "miri-slice" {
        // FFI-free workloads for `cargo +nightly miri run` (no Elements environment is built)
        let seed: u64 = arg("--seed").and_then(|s| s.parse().ok()).unwrap_or(1);
        let count: u64 = arg("--count").and_then(|s| s.parse().ok()).unwrap_or(6);
        props::miri::run(seed, count);
        return;
    }
    bridge::install_panic_hook();
    let seed: u64 = arg("--seed").and_then(|s| s.parse().ok()).unwrap_or(1);
    let (shard, nshards) = arg("--shard")
        .and_then(|s| {
            let (a, b) = s.split_once('/')?;
            Some((a.parse().ok()?, b.parse().ok()?))
        })
        .unwrap_or((0usize, 1usize));
    let thorough = arg("--tier").map_or(false, |t| t == "thorough");
    let budget_s: f64 = arg("--budget").and_then(|s| s.parse().ok()).unwrap_or(if thorough { 600.0 } else { 60.0 });
    let mut cx = Ctx {
        prop: cmd.clone(),
        seed,
        shard,
        nshards,
        thorough,
        golden: golden::Golden::load(),
        jets: bridge::JetRunner::new(simfony::dummy_env::dummy()),
        env: simfony::dummy_env::dummy(),
        report: Report::default(),
        budget_s,
        start: std::time::Instant::now(),
        only_case: arg("--case").and_then(|s| s.parse().ok()),
    };
    if cmd == "dev-prune" {
        // development aid: simfony-verif dev-prune PROGRAM.simf WITNESS.json
        let text = std::fs::read_to_string(&a[2]).unwrap();
        let wit: simfony::WitnessValues = serde_json::from_str(&std::fs::read_to_string(&a[3]).unwrap()).unwrap();
        let c = simfony::CompiledProgram::new(text.as_str(), simfony::Arguments::default(), false).unwrap();
        let cmr = c.commit().cmr();
        let all_envs = props::c18::envs();
        let mut list: Vec<(String, Option<&bridge::Env>)> = vec![("none".to_string(), None), ("dummy".to_string(), Some(&cx.env))];
        for (n, e) in &all_envs {
            list.push((n.clone(), Some(e)));
        }
        for (name, env) in list {
            match c.satisfy_with_env(wit.clone(), env) {
                Ok(s) => {
                    let (p, w) = s.redeem().encode_to_vec();
                    let d = bridge::decode_redeem(&p, &w);
                    if let bridge::Outcome::Ok(dd) = &d {
                        println!("   decoded exec: {}", format!("{:?}", bridge::exec_redeem(dd, env.unwrap_or(&cx.env))).chars().take(160).collect::<String>());
                        pipeline::walk_redeem(dd, &mut |n| {
                            if let simfony::simplicity::node::Inner::Witness(v) = n.inner() {
                                println!("   decoded witness node: type {} value {}", n.arrow().target, v);
                            }
                        });
                        println!("   witness bytes {:?}; same program bytes after re-encoding: {}", w, dd.encode_to_vec().0 == p);
                    }
                    let (m6, nw) = pipeline::m6_check(s.redeem(), &bridge::cmr_bytes(cmr));
                    println!("{name}: prog {} bytes, witness {} bytes, decode {}, m6 {:?}, witness nodes {nw}, exec {}",
                        p.len(), w.len(), d.map(|_| ()).brief(), m6, format!("{:?}", bridge::exec_redeem(s.redeem(), env.unwrap_or(&cx.env))).chars().take(120).collect::<String>());
                    pipeline::walk_redeem(s.redeem(), &mut |n| {
                        if let simfony::simplicity::node::Inner::Witness(v) = n.inner() {
                            println!("   witness node: type {} value {}", n.arrow().target, v);
                        }
                    });
                }
                Err(e) => println!("{name}: Err {e}"),
            }
        }
        return;
    }
    if cmd == "trace" {
        // development aid: run FILE.simf with the witness JSON FILE.wit under the trace machine
        // and print the observed events in order
        let text = std::fs::read_to_string(&a[2]).expect("program file");
        let wit: simfony::WitnessValues = a.get(3).filter(|f| !f.starts_with("--")).map(|f| serde_json::from_str(&std::fs::read_to_string(f).expect("witness file")).expect("witness json")).unwrap_or_default();
        let debug = a.iter().any(|x| x == "--debug");
        let built = match props::common::build(&text, &simfony::Arguments::default(), debug) {
            Ok(b) => b,
            Err(_) => {
                println!("does not compile");
                return;
            }
        };
        match pipeline::satisfy(&built.compiled, &wit, None) {
            bridge::Outcome::Ok(sat) => {
                let rep = pipeline::examine_redeem(&sat, &built.commit.cmr, &cx.env, Some(&mut cx.jets), if debug { Some(built.compiled.debug_symbols()) } else { None });
                println!("exec: {:?}  decode ok: {}", rep.exec, rep.decode.is_ok());
                if let Some(t) = &rep.trace {
                    for (i, e) in t.events.iter().enumerate() {
                        println!("{i}: {}", e.brief());
                    }
                    println!("result: {:?}", t.result);
                }
            }
            o => println!("satisfy: {}", o.map(|_| ()).brief()),
        }
        return;
    }
    if cmd == "show" {
        // print one generated program (development aid)
        let i: u64 = arg("--case").and_then(|s| s.parse().ok()).unwrap_or(0);
        cx.prop = arg("--prop").unwrap_or("c01".into());
        let mut rng = cx.rng(&[i]);
        let cfg = props::c01::cfg_for(i, &mut rng);
        let g = gen::generate(rng.clone(), cfg, &cx.golden);
        let p = props::common::prepare(&mut cx, g, &mut rng, &ast::Style::plain()).unwrap();
        println!("{}", p.text());
        return;
    }
    match cmd.as_str() {
        "c01" => props::c01::run(&mut cx),
        "c02" => props::c02::run(&mut cx),
        "c05" => props::c05::run(&mut cx),
        "c12" => props::c12::run(&mut cx),
        "c14" => props::c14::run(&mut cx),
        "c18" => props::c18::run(&mut cx),
        "c03" => props::c04::run_c03(&mut cx),
        "c04" => props::c04::run_c04(&mut cx),
        "c16" => props::c16::run(&mut cx),
        "c17" => props::c17::run(&mut cx),
        "c19" => props::c19::run(&mut cx),
        "c19-child" => {
            props::c19::run_child(&a[2..]);
            return;
        }
        "c20" => props::c20::run(&mut cx),
        "c06" => props::c06::run(&mut cx),
        "c06-child" => {
            cx.prop = "c06".into();
            let from: u64 = arg("--from").and_then(|s| s.parse().ok()).unwrap_or(0);
            let to: u64 = arg("--to").and_then(|s| s.parse().ok()).unwrap_or(0);
            props::c06::run_child(&mut cx, from, to)
        }
        "c07" => props::c07::run(&mut cx),
        "c08" => props::c08::run(&mut cx),
        "c09" => props::c09::run(&mut cx),
        "c10" => props::c10::run(&mut cx),
        "c11" => props::c11::run(&mut cx),
        "c13" => props::c13::run(&mut cx),
        "c15" => props::c15::run(&mut cx),
        other => {
            eprintln!("unknown command {other}");
            std::process::exit(2);
        }
    }
    let mut out = cx.report.to_json();
    out["wall_s"] = serde_json::json!(cx.start.elapsed().as_secs_f64());
    out["jet_calls"] = serde_json::json!(cx.jets.calls);
    println!("REPORT {}", out);
}

fn main() {
    // deep programs recurse deeply in the interpreter and the trace machine
    // ... except for the children of C06, which call the library on an 8 MiB stack like an
    // ordinary caller (that is what `simc` has), so that a stack overflow becomes visible
    if std::env::args().nth(1).map_or(false, |c| c == "miri-slice") {
        // under Miri: no giant thread stack
        real_main();
        return;
    }
    let is_c06_child = std::env::args().nth(1).map_or(false, |c| c == "c06-child");
    let t = std::thread::Builder::new()
        .stack_size(if is_c06_child { 8 << 20 } else { 2 << 30 })
        .spawn(real_main)
        .expect("spawn");
    if t.join().is_err() {
        let info = bridge::GLOBAL_LAST_PANIC.lock().ok().and_then(|g| g.clone());
        eprintln!("HARNESS-ERROR worker thread panicked: {info:?}");
        std::process::exit(3);
    }
}
