//! M3 — reference semantics: a strict call-by-value interpreter of `main`, written from the
//! book. Evaluation is top to bottom, left to right. Besides the verdict (finished / panicked)
//! it returns the event log that the compiled program is expected to produce.
//!
//! Jets are evaluated by the real C implementation (through `JetRunner`): the meaning of a jet
//! is not simfony's responsibility; what simfony is responsible for — which values reach the
//! jet, in which order — is exactly what is compared.

use std::collections::HashMap;

use crate::ast::*;
use crate::bridge::JetRunner;
use crate::golden::Golden;
use crate::layout::{from_tree, layout_value, Tree};
use crate::u256::U256;

#[derive(Clone, PartialEq, Eq, Debug)]
pub enum REvent {
    Jet {
        call: usize,
        name: String,
        input: Tree,
        output: Option<Tree>,
    },
    Unwrap {
        call: usize,
        right: bool,
        scrut: Tree,
    },
    Fail {
        call: usize,
    },
    /// debug builds only: marker in front of every tracked call
    Marker {
        call: usize,
        args: Tree,
    },
    /// `witness::NAME` was evaluated
    Witness {
        name: String,
        value: Tree,
    },
}

impl REvent {
    pub fn brief(&self) -> String {
        match self {
            REvent::Jet { call, name, input, output } => format!(
                "#{call} jet {name} {} -> {}",
                input.brief(),
                output.as_ref().map(|o| o.brief()).unwrap_or("FAILED".into())
            ),
            REvent::Unwrap { call, right, scrut } => format!(
                "#{call} unwrap_{} {}",
                if *right { "right" } else { "left" },
                scrut.brief()
            ),
            REvent::Fail { call } => format!("#{call} fail"),
            REvent::Marker { call, args } => format!("#{call} marker {}", args.brief()),
            REvent::Witness { name, value } => format!("witness::{name} {}", value.brief()),
        }
    }
}

#[derive(Clone, PartialEq, Eq, Debug)]
pub enum Stop {
    /// source-level panic at the given call site
    Panic { call: usize, why: &'static str },
    /// the interpreter cannot judge this program (harness limitation, not a verdict)
    Refuse(String),
}

#[derive(Clone, Copy, PartialEq, Eq, Debug)]
pub enum Mode {
    Run,
    /// first pass of probe programs: unfilled holes take the value they are compared with
    Fill,
}

pub struct Interp<'a> {
    pub funcs: HashMap<String, Func>,
    pub aliases: HashMap<String, Ty>,
    pub witness: &'a HashMap<String, Val>,
    pub args: &'a HashMap<String, Val>,
    pub jets: &'a mut JetRunner,
    pub golden: &'a Golden,
    pub events: Vec<REvent>,
    pub debug: bool,
    pub mode: Mode,
    pub holes: Vec<Hole>,
    pub fuel: u64,
    /// scopes of the function being evaluated (innermost last)
    env: Vec<Vec<(String, Val)>>,
    /// values that `witness::NAME` expressions produced, in evaluation order
    pub witness_reads: Vec<(String, Val)>,
}

type R<T> = Result<T, Stop>;

fn refuse<T>(s: impl Into<String>) -> R<T> {
    Err(Stop::Refuse(s.into()))
}

pub fn parse_int_literal(text: &str, bits: u16) -> Option<U256> {
    let t = text.replace('_', "");
    let x = if let Some(h) = t.strip_prefix("0x") {
        if bits < 8 || h.len() * 4 != bits as usize {
            return None;
        }
        U256::from_hex(h)?
    } else if let Some(b) = t.strip_prefix("0b") {
        if b.len() != bits as usize {
            return None;
        }
        U256::from_bin(b)?
    } else {
        let d = t.trim_start_matches('0');
        if t.is_empty() {
            return None;
        }
        if d.is_empty() {
            U256::ZERO
        } else {
            if d.len() > 78 {
                return None;
            }
            U256::from_dec(d)?
        }
    };
    if x.fits(bits as usize) {
        Some(x)
    } else {
        None
    }
}

impl<'a> Interp<'a> {
    pub fn new(
        prog: &Program,
        witness: &'a HashMap<String, Val>,
        args: &'a HashMap<String, Val>,
        jets: &'a mut JetRunner,
        golden: &'a Golden,
    ) -> R<Self> {
        let mut aliases: HashMap<String, Ty> = HashMap::new();
        let mut funcs = HashMap::new();
        for item in &prog.items {
            match item {
                Item::Alias(n, t) => {
                    let r = resolve_ty(t, &|k| aliases.get(k).cloned())
                        .map_err(|e| Stop::Refuse(format!("alias {e}")))?;
                    aliases.insert(n.clone(), r);
                }
                Item::Func(f) => {
                    // resolve the signature at the point of definition
                    let mut g = f.clone();
                    for (_, t) in g.params.iter_mut() {
                        *t = resolve_ty(t, &|k| aliases.get(k).cloned())
                            .map_err(|e| Stop::Refuse(format!("alias {e}")))?;
                    }
                    if let Some(t) = &g.ret {
                        g.ret = Some(
                            resolve_ty(t, &|k| aliases.get(k).cloned())
                                .map_err(|e| Stop::Refuse(format!("alias {e}")))?,
                        );
                    }
                    resolve_expr_types(&mut g.body, &aliases)?;
                    funcs.insert(g.name.clone(), g);
                }
                Item::Module(_) => {}
            }
        }
        Ok(Interp {
            funcs,
            aliases,
            witness,
            args,
            jets,
            golden,
            events: vec![],
            debug: false,
            mode: Mode::Run,
            holes: prog.holes.clone(),
            fuel: 50_000_000,
            env: vec![],
            witness_reads: vec![],
        })
    }

    /// Evaluate `main`. Ok(()) = finished, Err(Stop::Panic) = panicked.
    pub fn run_main(&mut self) -> R<()> {
        let main = match self.funcs.get("main") {
            Some(f) => f.clone(),
            None => return refuse("no main"),
        };
        self.env = vec![vec![]];
        self.eval(&main.body, &Ty::unit()).map(|_| ())
    }

    fn tick(&mut self) -> R<()> {
        if self.fuel == 0 {
            return refuse("out of fuel");
        }
        self.fuel -= 1;
        Ok(())
    }

    fn lookup(&self, name: &str) -> Option<&Val> {
        for scope in self.env.iter().rev() {
            for (n, v) in scope.iter().rev() {
                if n == name {
                    return Some(v);
                }
            }
        }
        None
    }

    fn bind(&mut self, p: &Pat, v: &Val) -> R<()> {
        match (p, v) {
            (Pat::Id(n), _) => {
                self.env.last_mut().unwrap().push((n.clone(), v.clone()));
                Ok(())
            }
            (Pat::Ignore, _) => Ok(()),
            (Pat::Tuple(ps), Val::Tuple(vs)) if ps.len() == vs.len() => {
                for (p, v) in ps.iter().zip(vs) {
                    self.bind(p, v)?;
                }
                Ok(())
            }
            (Pat::Array(ps), Val::Array(vs)) if ps.len() == vs.len() => {
                for (p, v) in ps.iter().zip(vs) {
                    self.bind(p, v)?;
                }
                Ok(())
            }
            _ => refuse(format!("pattern {p:?} does not fit value")),
        }
    }

    fn call_fn(&mut self, f: &Func, args: Vec<Val>) -> R<Val> {
        // a function body sees only its parameters
        let saved = std::mem::replace(&mut self.env, vec![vec![]]);
        for ((n, _), v) in f.params.iter().zip(args) {
            self.env.last_mut().unwrap().push((n.clone(), v));
        }
        let ret = f.ret.clone().unwrap_or_else(Ty::unit);
        let r = self.eval(&f.body, &ret);
        self.env = saved;
        r
    }

    fn marker(&mut self, call: usize, args: &[Val]) {
        if self.debug {
            let t = layout_value(&Val::Tuple(args.to_vec()));
            self.events.push(REvent::Marker { call, args: t });
        }
    }

    pub fn eval(&mut self, e: &Expr, ty: &Ty) -> R<Val> {
        self.tick()?;
        match e {
            Expr::Bool(b) => Ok(Val::Bool(*b)),
            Expr::Int(text) => match ty {
                Ty::U(n) => parse_int_literal(text, *n)
                    .map(|x| Val::U(*n, x))
                    .ok_or_else(|| Stop::Refuse(format!("literal {text} at u{n}"))),
                Ty::Array(et, n) if **et == Ty::U(8) => {
                    let t = text.replace('_', "");
                    let h = t.strip_prefix("0x").ok_or(Stop::Refuse("byte string".into()))?;
                    if h.len() != 2 * n {
                        return refuse("byte string length");
                    }
                    let mut vs = vec![];
                    for k in 0..*n {
                        let b = u8::from_str_radix(&h[2 * k..2 * k + 2], 16)
                            .map_err(|_| Stop::Refuse("hex".into()))?;
                        vs.push(Val::u(8, b as u128));
                    }
                    Ok(Val::Array(vs))
                }
                _ => refuse(format!("integer literal at type {}", render_ty(ty))),
            },
            Expr::Var(n) => self
                .lookup(n)
                .cloned()
                .ok_or_else(|| Stop::Refuse(format!("unbound {n}"))),
            Expr::Witness(n) => {
                let v = self
                    .witness
                    .get(n)
                    .cloned()
                    .ok_or_else(|| Stop::Refuse(format!("no witness value for {n}")))?;
                self.witness_reads.push((n.clone(), v.clone()));
                self.events.push(REvent::Witness {
                    name: n.clone(),
                    value: layout_value(&v),
                });
                Ok(v)
            }
            Expr::Param(n) => self
                .args
                .get(n)
                .cloned()
                .ok_or_else(|| Stop::Refuse(format!("no argument for {n}"))),
            Expr::Tuple(es) => match ty {
                Ty::Tuple(ts) if ts.len() == es.len() => {
                    let mut vs = vec![];
                    for (e, t) in es.iter().zip(ts) {
                        vs.push(self.eval(e, t)?);
                    }
                    Ok(Val::Tuple(vs))
                }
                _ => refuse("tuple type"),
            },
            Expr::Array(es) => match ty {
                Ty::Array(t, n) if *n == es.len() => {
                    let mut vs = vec![];
                    for e in es {
                        vs.push(self.eval(e, t)?);
                    }
                    Ok(Val::Array(vs))
                }
                _ => refuse("array type"),
            },
            Expr::List(es) => match ty {
                Ty::List(t, b) if es.len() < *b => {
                    let mut vs = vec![];
                    for e in es {
                        vs.push(self.eval(e, t)?);
                    }
                    Ok(Val::List(vs, *b))
                }
                _ => refuse("list type"),
            },
            Expr::None_ => Ok(Val::None),
            Expr::Some_(x) => match ty {
                Ty::Option(t) => Ok(Val::Some(Box::new(self.eval(x, t)?))),
                _ => refuse("option type"),
            },
            Expr::Left(x) => match ty {
                Ty::Either(l, _) => Ok(Val::Left(Box::new(self.eval(x, l)?))),
                _ => refuse("either type"),
            },
            Expr::Right(x) => match ty {
                Ty::Either(_, r) => Ok(Val::Right(Box::new(self.eval(x, r)?))),
                _ => refuse("either type"),
            },
            Expr::Paren(x) => self.eval(x, ty),
            Expr::Block(stmts, last) => {
                self.env.push(vec![]);
                let r = (|| {
                    for s in stmts {
                        match s {
                            Stmt::Let(p, t, e) => {
                                let v = self.eval(e, t)?;
                                self.bind(p, &v)?;
                            }
                            Stmt::Expr(e) => {
                                self.eval(e, &Ty::unit())?;
                            }
                        }
                    }
                    match last {
                        Some(e) => self.eval(e, ty),
                        None => Ok(Val::unit()),
                    }
                })();
                self.env.pop();
                r
            }
            Expr::Match(scrut, arms) => {
                let sty = scrutinee_type(&arms[0].pat, &arms[1].pat)
                    .ok_or_else(|| Stop::Refuse("match arms".into()))?;
                let v = self.eval(scrut, &sty)?;
                let (arm, binding): (&Arm, Option<Val>) = {
                    let mut found = None;
                    for arm in arms.iter() {
                        match (&arm.pat, &v) {
                            (MatchPat::False, Val::Bool(false))
                            | (MatchPat::True, Val::Bool(true))
                            | (MatchPat::None_, Val::None) => found = Some((arm, None)),
                            (MatchPat::Some_(..), Val::Some(x))
                            | (MatchPat::Left(..), Val::Left(x))
                            | (MatchPat::Right(..), Val::Right(x)) => {
                                found = Some((arm, Some((**x).clone())))
                            }
                            _ => {}
                        }
                    }
                    found.ok_or_else(|| Stop::Refuse("no arm matches".into()))?
                };
                self.env.push(vec![]);
                if let Some(b) = binding {
                    let name = match &arm.pat {
                        MatchPat::Some_(n, _) | MatchPat::Left(n, _) | MatchPat::Right(n, _) => n.clone(),
                        _ => unreachable!(),
                    };
                    self.env.last_mut().unwrap().push((name, b));
                }
                let r = self.eval(&arm.body, ty);
                self.env.pop();
                r
            }
            Expr::Hole(i) => match &self.holes[*i].val {
                Some(v) => Ok(v.clone()),
                None => {
                    if self.mode == Mode::Fill && *ty == Ty::Bool {
                        self.holes[*i].val = Some(Val::Bool(true));
                        Ok(Val::Bool(true))
                    } else {
                        refuse("unfilled hole")
                    }
                }
            },
            Expr::Call(c) => self.eval_call(c, ty),
        }
    }

    fn eval_args(&mut self, args: &[Expr], tys: &[Ty]) -> R<Vec<Val>> {
        if args.len() != tys.len() {
            return refuse("arity");
        }
        let mut vs = vec![];
        for (a, t) in args.iter().zip(tys) {
            vs.push(self.eval(a, t)?);
        }
        Ok(vs)
    }

    fn eval_call(&mut self, c: &Call, ty: &Ty) -> R<Val> {
        let call = c.id;
        match &c.name {
            CallName::Jet(name) => {
                let sig = self
                    .golden
                    .get(name)
                    .ok_or_else(|| Stop::Refuse(format!("unknown jet {name}")))?
                    .clone();
                // probe form: eq_N(e, HOLE)
                let mut prefilled = None;
                if self.mode == Mode::Fill && name.starts_with("eq_") && c.args.len() == 2 {
                    if let Expr::Hole(i) = &c.args[1] {
                        if self.holes[*i].val.is_none() {
                            let v = self.eval(&c.args[0], &sig.rparams[0])?;
                            self.holes[*i].val = Some(v.clone());
                            prefilled = Some(vec![v.clone(), v]);
                        }
                    }
                }
                let args = match prefilled {
                    Some(a) => a,
                    None => self.eval_args(&c.args, &sig.rparams)?,
                };
                self.marker(call, &args);
                let input = layout_value(&Val::Tuple(args));
                let out = self
                    .jets
                    .run(sig.jet, &input)
                    .map_err(|e| Stop::Refuse(format!("jet runner: {e}")))?;
                self.events.push(REvent::Jet {
                    call,
                    name: name.clone(),
                    input,
                    output: out.clone(),
                });
                match out {
                    None => Err(Stop::Panic { call, why: "jet failed" }),
                    Some(t) => from_tree(&t, &sig.rret)
                        .ok_or_else(|| Stop::Refuse(format!("jet {name} output does not fit"))),
                }
            }
            CallName::UnwrapLeft(rt) => {
                let at = Ty::either(ty.clone(), rt.clone());
                let args = self.eval_args(&c.args, &[at])?;
                self.marker(call, &args);
                self.events.push(REvent::Unwrap {
                    call,
                    right: false,
                    scrut: layout_value(&args[0]),
                });
                match &args[0] {
                    Val::Left(x) => Ok((**x).clone()),
                    _ => Err(Stop::Panic { call, why: "unwrap_left of Right" }),
                }
            }
            CallName::UnwrapRight(lt) => {
                let at = Ty::either(lt.clone(), ty.clone());
                let args = self.eval_args(&c.args, &[at])?;
                self.marker(call, &args);
                self.events.push(REvent::Unwrap {
                    call,
                    right: true,
                    scrut: layout_value(&args[0]),
                });
                match &args[0] {
                    Val::Right(x) => Ok((**x).clone()),
                    _ => Err(Stop::Panic { call, why: "unwrap_right of Left" }),
                }
            }
            CallName::Unwrap => {
                let at = Ty::opt(ty.clone());
                let args = self.eval_args(&c.args, &[at])?;
                self.marker(call, &args);
                self.events.push(REvent::Unwrap {
                    call,
                    right: true,
                    scrut: layout_value(&args[0]),
                });
                match &args[0] {
                    Val::Some(x) => Ok((**x).clone()),
                    _ => Err(Stop::Panic { call, why: "unwrap of None" }),
                }
            }
            CallName::IsNone(t) => {
                let args = self.eval_args(&c.args, &[Ty::opt(t.clone())])?;
                Ok(Val::Bool(matches!(args[0], Val::None)))
            }
            CallName::Assert => {
                let args = self.eval_args(&c.args, &[Ty::Bool])?;
                self.marker(call, &args);
                let ok = args[0].as_bool();
                self.events.push(REvent::Jet {
                    call,
                    name: "verify".into(),
                    input: layout_value(&args[0]),
                    output: if ok { Some(Tree::Unit) } else { None },
                });
                if ok {
                    Ok(Val::unit())
                } else {
                    Err(Stop::Panic { call, why: "assertion failed" })
                }
            }
            CallName::Panic => {
                let args = self.eval_args(&c.args, &[])?;
                self.marker(call, &args);
                self.events.push(REvent::Fail { call });
                Err(Stop::Panic { call, why: "panic!" })
            }
            CallName::Dbg => {
                let args = self.eval_args(&c.args, &[ty.clone()])?;
                self.marker(call, &args);
                Ok(args.into_iter().next().unwrap())
            }
            CallName::Cast(src) => {
                let args = self.eval_args(&c.args, &[src.clone()])?;
                let t = layout_value(&args[0]);
                from_tree(&t, ty).ok_or_else(|| {
                    Stop::Refuse(format!(
                        "cast {} -> {} does not preserve layout",
                        render_ty(src),
                        render_ty(ty)
                    ))
                })
            }
            CallName::Fn(name) => {
                let f = self
                    .funcs
                    .get(name)
                    .cloned()
                    .ok_or_else(|| Stop::Refuse(format!("unknown function {name}")))?;
                let tys: Vec<Ty> = f.params.iter().map(|(_, t)| t.clone()).collect();
                let args = self.eval_args(&c.args, &tys)?;
                self.call_fn(&f, args)
            }
            CallName::Fold(name, bound) => {
                let f = self
                    .funcs
                    .get(name)
                    .cloned()
                    .ok_or_else(|| Stop::Refuse(format!("unknown function {name}")))?;
                if f.params.len() != 2 {
                    return refuse("fold signature");
                }
                let lt = Ty::list(f.params[0].1.clone(), *bound);
                let at = f.params[1].1.clone();
                let args = self.eval_args(&c.args, &[lt, at])?;
                let mut it = args.into_iter();
                let list = it.next().unwrap();
                let mut acc = it.next().unwrap();
                let elems = match list {
                    Val::List(vs, _) => vs,
                    _ => return refuse("fold list"),
                };
                for e in elems {
                    acc = self.call_fn(&f, vec![e, acc])?;
                }
                Ok(acc)
            }
            CallName::ForWhile(name) => {
                let f = self
                    .funcs
                    .get(name)
                    .cloned()
                    .ok_or_else(|| Stop::Refuse(format!("unknown function {name}")))?;
                if f.params.len() != 3 {
                    return refuse("for_while signature");
                }
                let bits = match f.params[2].1 {
                    Ty::U(n) if n <= 16 => n,
                    _ => return refuse("for_while counter"),
                };
                let tys = [f.params[0].1.clone(), f.params[1].1.clone()];
                let args = self.eval_args(&c.args, &tys)?;
                let mut it = args.into_iter();
                let mut acc = it.next().unwrap();
                let ctx = it.next().unwrap();
                for i in 0..(1u128 << bits) {
                    let r = self.call_fn(&f, vec![acc, ctx.clone(), Val::u(bits, i)])?;
                    match r {
                        Val::Left(b) => return Ok(Val::Left(b)),
                        Val::Right(a) => acc = *a,
                        _ => return refuse("for_while body result"),
                    }
                }
                Ok(Val::Right(Box::new(acc)))
            }
        }
    }
}

pub fn scrutinee_type(a: &MatchPat, b: &MatchPat) -> Option<Ty> {
    use MatchPat::*;
    match (a, b) {
        (False, True) | (True, False) => Some(Ty::Bool),
        (None_, Some_(_, t)) | (Some_(_, t), None_) => Some(Ty::opt(t.clone())),
        (Left(_, l), Right(_, r)) | (Right(_, r), Left(_, l)) => {
            Some(Ty::either(l.clone(), r.clone()))
        }
        _ => Option::None,
    }
}

/// Replace every alias inside the types that occur in an expression by its definition.
pub fn resolve_expr_types(e: &mut Expr, aliases: &HashMap<String, Ty>) -> R<()> {
    let mut err = None;
    let res = |t: &mut Ty, err: &mut Option<String>| match resolve_ty(t, &|k| aliases.get(k).cloned()) {
        Ok(r) => *t = r,
        Err(e) => *err = Some(e),
    };
    e.visit_mut(&mut |x| match x {
        Expr::Block(stmts, _) => {
            for s in stmts.iter_mut() {
                if let Stmt::Let(_, t, _) = s {
                    res(t, &mut err);
                }
            }
        }
        Expr::Match(_, arms) => {
            for arm in arms.iter_mut() {
                match &mut arm.pat {
                    MatchPat::Some_(_, t) | MatchPat::Left(_, t) | MatchPat::Right(_, t) => {
                        res(t, &mut err)
                    }
                    _ => {}
                }
            }
        }
        Expr::Call(c) => match &mut c.name {
            CallName::UnwrapLeft(t)
            | CallName::UnwrapRight(t)
            | CallName::IsNone(t)
            | CallName::Cast(t) => res(t, &mut err),
            _ => {}
        },
        _ => {}
    });
    match err {
        Some(e) => refuse(format!("undefined alias {e}")),
        None => Ok(()),
    }
}
