//! C17 — names are opaque: renaming and layout never change meaning.

use serde_json::json;

use super::common::*;
use super::exec::*;
use crate::ast::*;
use crate::bridge::*;
use crate::gen::{generate, GenCfg};
use crate::rng::{fnv64, Rng};

pub const RESERVED: &[&str] = &[
    "fn", "let", "match", "type", "mod", "const", "true", "false", "None", "Some", "Left", "Right", "bool", "u1", "u2",
    "u4", "u8", "u16", "u32", "u64", "u128", "u256", "Either", "Option", "List", "Ctx8", "Pubkey", "Message64", "Message",
    "Signature", "Scalar", "Fe", "Gej", "Ge", "Point", "Height", "Time", "Distance", "Duration", "Lock", "Outpoint",
    "Confidential1", "ExplicitAsset", "Asset1", "ExplicitAmount", "Amount1", "ExplicitNonce", "Nonce", "TokenAmount1",
    "unwrap_left", "unwrap_right", "for_while", "is_none", "unwrap", "assert", "panic", "into", "fold", "dbg", "jet",
    "witness", "param", "main", "list",
];

/// Identifiers `[A-Za-z][A-Za-z0-9_]*` that are not exactly a reserved word.
pub fn name_pool(rng: &mut Rng, n: usize) -> Vec<String> {
    let mut v = vec![];
    for _ in 0..n {
        let w = *rng.pick(RESERVED);
        let s = match rng.below(9) {
            0 => format!("{w}x"),
            1 => format!("{w}1"),
            2 => format!("{w}_"),
            3 => format!("{w}_x"),
            4 => format!("{w}{w}"),
            5 => {
                // case variant
                let mut c = w.chars();
                let f = c.next().unwrap();
                let flipped: String = if f.is_uppercase() { f.to_lowercase().collect() } else { f.to_uppercase().collect() };
                format!("{flipped}{}", c.as_str())
            }
            6 => w.to_uppercase(),
            7 => {
                // random identifier
                let len = 1 + rng.below(10);
                let mut s = String::new();
                s.push(*rng.pick(&['a', 'b', 'q', 'Z', 'M', 'x']));
                for _ in 1..len {
                    s.push(*rng.pick(&['a', 'e', 'z', 'A', 'Q', '0', '7', '_']));
                }
                s
            }
            _ => format!("x{w}"),
        };
        if RESERVED.contains(&s.as_str()) || !s.chars().next().unwrap().is_ascii_alphabetic() {
            continue;
        }
        v.push(s);
    }
    v
}

#[derive(Clone, Copy, Debug, PartialEq, Eq)]
pub enum Role {
    Variable,
    Function,
    Alias,
    Witness,
    Parameter,
}

fn rename_ty(t: &mut Ty, old: &str, new: &str) {
    match t {
        Ty::Alias(n) if n == old => *n = new.to_string(),
        Ty::Tuple(v) => v.iter_mut().for_each(|x| rename_ty(x, old, new)),
        Ty::Array(x, _) | Ty::List(x, _) | Ty::Option(x) => rename_ty(x, old, new),
        Ty::Either(l, r) => {
            rename_ty(l, old, new);
            rename_ty(r, old, new);
        }
        _ => {}
    }
}

fn rename_pat(p: &mut Pat, old: &str, new: &str) {
    match p {
        Pat::Id(n) if n == old => *n = new.to_string(),
        Pat::Tuple(v) | Pat::Array(v) => v.iter_mut().for_each(|x| rename_pat(x, old, new)),
        _ => {}
    }
}

pub fn for_each_ty(p: &mut Program, f: &mut dyn FnMut(&mut Ty)) {
    p.for_each_annotation(f);
    for h in p.holes.iter_mut() {
        f(&mut h.ty);
    }
}

/// Rename every occurrence of `old` in the given naming role.
pub fn rename(p: &mut Program, role: Role, old: &str, new: &str) {
    match role {
        Role::Alias => {
            for item in p.items.iter_mut() {
                if let Item::Alias(n, _) = item {
                    if n == old {
                        *n = new.to_string();
                    }
                }
            }
            for_each_ty(p, &mut |t| rename_ty(t, old, new));
        }
        Role::Function => {
            for f in p.funcs_mut() {
                if f.name == old {
                    f.name = new.to_string();
                }
                f.body.visit_mut(&mut |e| {
                    if let Expr::Call(c) = e {
                        match &mut c.name {
                            CallName::Fn(n) | CallName::Fold(n, _) | CallName::ForWhile(n) if n == old => *n = new.to_string(),
                            _ => {}
                        }
                    }
                });
            }
        }
        Role::Variable => {
            for f in p.funcs_mut() {
                for (n, _) in f.params.iter_mut() {
                    if n == old {
                        *n = new.to_string();
                    }
                }
                f.body.visit_mut(&mut |e| match e {
                    Expr::Var(n) if n == old => *n = new.to_string(),
                    Expr::Block(stmts, _) => {
                        for s in stmts.iter_mut() {
                            if let Stmt::Let(pat, _, _) = s {
                                rename_pat(pat, old, new);
                            }
                        }
                    }
                    Expr::Match(_, arms) => {
                        for arm in arms.iter_mut() {
                            match &mut arm.pat {
                                MatchPat::Some_(n, _) | MatchPat::Left(n, _) | MatchPat::Right(n, _) if n == old => *n = new.to_string(),
                                _ => {}
                            }
                        }
                    }
                    _ => {}
                });
            }
        }
        Role::Witness | Role::Parameter => {
            for f in p.funcs_mut() {
                f.body.visit_mut(&mut |e| match e {
                    Expr::Witness(n) if role == Role::Witness && n == old => *n = new.to_string(),
                    Expr::Param(n) if role == Role::Parameter && n == old => *n = new.to_string(),
                    _ => {}
                });
            }
        }
    }
}

/// All names of a role that occur in the program.
pub fn names_of(p: &Program, role: Role) -> Vec<String> {
    let mut v: Vec<String> = vec![];
    let mut add = |s: &str| {
        if !v.iter().any(|x| x == s) {
            v.push(s.to_string())
        }
    };
    match role {
        Role::Alias => {
            for item in &p.items {
                if let Item::Alias(n, _) = item {
                    add(n);
                }
            }
        }
        Role::Function => {
            for f in p.funcs() {
                if f.name != "main" {
                    add(&f.name);
                }
            }
        }
        _ => {
            for f in p.funcs() {
                if role == Role::Variable {
                    for (n, _) in &f.params {
                        add(n);
                    }
                }
                f.body.visit(&mut |e| match (e, role) {
                    (Expr::Var(n), Role::Variable) => add(n),
                    (Expr::Witness(n), Role::Witness) => add(n),
                    (Expr::Param(n), Role::Parameter) => add(n),
                    (Expr::Block(stmts, _), Role::Variable) => {
                        for s in stmts {
                            if let Stmt::Let(pat, _, _) = s {
                                fn ids(p: &Pat, out: &mut Vec<String>) {
                                    match p {
                                        Pat::Id(n) => out.push(n.clone()),
                                        Pat::Tuple(v) | Pat::Array(v) => v.iter().for_each(|x| ids(x, out)),
                                        Pat::Ignore => {}
                                    }
                                }
                                let mut o = vec![];
                                ids(pat, &mut o);
                                for n in o {
                                    add(&n);
                                }
                            }
                        }
                    }
                    (Expr::Match(_, arms), Role::Variable) => {
                        for arm in arms.iter() {
                            match &arm.pat {
                                MatchPat::Some_(n, _) | MatchPat::Left(n, _) | MatchPat::Right(n, _) => add(n),
                                _ => {}
                            }
                        }
                    }
                    _ => {}
                });
            }
        }
    }
    v
}

fn cmr_of(text: &str, args: &simfony::Arguments) -> Outcome<[u8; 32]> {
    match build(text, args, false) {
        Ok(b) => Outcome::Ok(b.commit.cmr),
        Err(BuildFail::Rejected(e)) | Err(BuildFail::Backend(e)) => Outcome::Err(last_line(&e)),
        Err(BuildFail::Panic(p)) => Outcome::Panic(p),
    }
}

pub fn run(cx: &mut Ctx) {
    let n: u64 = if cx.thorough { 4_000 } else { 160 };
    let names_per_role = if cx.thorough { 40 } else { 14 };
    for i in cx.cases(n) {
        if cx.out_of_time() {
            break;
        }
        cx.begin_case(i);
        let mut rng = cx.rng(&[i]);
        let mut cfg = GenCfg::default();
        cfg.size_budget = 70;
        cfg.max_params = 2;
        cfg.max_witnesses = 4;
        cfg.aliases = true;
        let g = generate(rng.clone(), cfg, &cx.golden);
        let p = match prepare(cx, g, &mut rng, &Style::plain()) {
            Ok(p) => p,
            Err(e) => {
                cx.report.harness_error(json!({"what": e}));
                continue;
            }
        };
        let base_args = arguments(&to_sim_map(&p.args, &p.params));
        let base_cmr = match cmr_of(p.text(), &base_args) {
            Outcome::Ok(c) => c,
            o => {
                // rejected as written: then the same program with every alias replaced by its
                // definition must be rejected too (an alias changes nothing)
                let mut q = p.prog.clone();
                let defs: Vec<(String, Ty)> = q.items.iter().filter_map(|it| if let Item::Alias(n, t) = it { Some((n.clone(), t.clone())) } else { None }).collect();
                fn inline_all(t: &mut Ty, defs: &[(String, Ty)]) {
                    match t {
                        Ty::Alias(n) => {
                            if let Some(d) = builtin_alias(n).or_else(|| defs.iter().find(|(m, _)| m == n).map(|(_, d)| d.clone())) {
                                *t = d;
                                inline_all(t, defs);
                            }
                        }
                        Ty::Tuple(v) => v.iter_mut().for_each(|x| inline_all(x, defs)),
                        Ty::Array(x, _) | Ty::List(x, _) | Ty::Option(x) => inline_all(x, defs),
                        Ty::Either(l, r) => {
                            inline_all(l, defs);
                            inline_all(r, defs);
                        }
                        _ => {}
                    }
                }
                for_each_ty(&mut q, &mut |t| inline_all(t, &defs));
                q.items.retain(|it| !matches!(it, Item::Alias(..)));
                let plain = render_plain(&q);
                if let Outcome::Ok(_) = cmr_of(&plain, &base_args) {
                    cx.report.violation(json!({"kind": "alias-acceptance", "what": format!("the program is rejected ({}) but accepted once every alias is replaced by its definition", o.map(|_| ()).brief()),
                        "program": p.text(), "variant": plain, "signature": format!("alias-acc:{:016x}", fnv64(p.text().as_bytes()))}));
                } else {
                    cx.report.inconclusive(json!({"why": "base program not accepted with or without aliases (C04's subject)", "program": p.text()}));
                }
                continue;
            }
        };
        cx.report.count("base_programs", 1);
        let key = fnv64(p.text().as_bytes());
        let all_names: Vec<String> = [Role::Variable, Role::Function, Role::Alias, Role::Witness, Role::Parameter]
            .iter()
            .flat_map(|r| names_of(&p.prog, *r))
            .collect();
        // ---- consistent renaming of one name per role
        for role in [Role::Variable, Role::Function, Role::Alias, Role::Witness, Role::Parameter] {
            let present = names_of(&p.prog, role);
            if present.is_empty() {
                continue;
            }
            for new in name_pool(&mut rng, names_per_role) {
                let old = rng.pick(&present).clone();
                if all_names.contains(&new) {
                    continue;
                }
                let mut q = p.prog.clone();
                rename(&mut q, role, &old, &new);
                let text = render_plain(&q);
                // parameters are passed by name
                let args = if role == Role::Parameter {
                    let renamed: Vec<(String, simfony::Value)> = to_sim_map(&p.args, &p.params)
                        .into_iter()
                        .map(|(n, v)| (if n == old { new.clone() } else { n }, v))
                        .collect();
                    arguments(&renamed)
                } else {
                    base_args.clone()
                };
                cx.report.evaluations += 1;
                match cmr_of(&text, &args) {
                    Outcome::Ok(c) if c == base_cmr => {
                        cx.report.count(&format!("renamed_{role:?}"), 1);
                        cx.report.nontrivial.insert(fnv64(format!("{key}|{role:?}|{new}").as_bytes()));
                        if cx.report.sets.get("names_used").map_or(true, |s| s.len() < 400) {
                            cx.report.note("names_used", &new);
                        }
                    }
                    Outcome::Ok(_) => {
                        cx.report.violation(json!({"kind": "rename-cmr", "what": format!("renaming {role:?} `{old}` to `{new}` changes the CMR"),
                            "program": p.text(), "variant": text, "signature": format!("rename-cmr:{role:?}:{new}")}));
                    }
                    o => {
                        cx.report.violation(json!({"kind": "rename-rejected", "what": format!("renaming {role:?} `{old}` to `{new}`: {}", o.map(|_| ()).brief()),
                            "program": p.text(), "variant": text, "signature": format!("rename:{role:?}:{new}")}));
                    }
                }
            }
        }
        // ---- alias replaced by its definition
        {
            let mut q = p.prog.clone();
            let defs: Vec<(String, Ty)> = q
                .items
                .iter()
                .filter_map(|it| if let Item::Alias(n, t) = it { Some((n.clone(), t.clone())) } else { None })
                .collect();
            if let Some((name, def)) = defs.last().cloned() {
                q.items.retain(|it| !matches!(it, Item::Alias(n, _) if *n == name));
                fn inline(t: &mut Ty, name: &str, def: &Ty) {
                    match t {
                        Ty::Alias(n) if n == name => *t = def.clone(),
                        Ty::Tuple(v) => v.iter_mut().for_each(|x| inline(x, name, def)),
                        Ty::Array(x, _) | Ty::List(x, _) | Ty::Option(x) => inline(x, name, def),
                        Ty::Either(l, r) => {
                            inline(l, name, def);
                            inline(r, name, def);
                        }
                        _ => {}
                    }
                }
                for_each_ty(&mut q, &mut |t| inline(t, &name, &def));
                variant(cx, &p, &render_plain(&q), &base_args, base_cmr, "alias replaced by its definition");
            }
        }
        // ---- builtin aliases replaced by their documented definitions
        {
            let mut q = p.prog.clone();
            let mut n_inlined = 0u64;
            fn inline_builtin(t: &mut Ty, n_inlined: &mut u64) {
                match t {
                    Ty::Alias(n) => {
                        if let Some(def) = builtin_alias(n) {
                            *t = def;
                            *n_inlined += 1;
                        }
                    }
                    Ty::Tuple(v) => v.iter_mut().for_each(|x| inline_builtin(x, n_inlined)),
                    Ty::Array(x, _) | Ty::List(x, _) | Ty::Option(x) => inline_builtin(x, n_inlined),
                    Ty::Either(l, r) => {
                        inline_builtin(l, n_inlined);
                        inline_builtin(r, n_inlined);
                    }
                    _ => {}
                }
            }
            for_each_ty(&mut q, &mut |t| inline_builtin(t, &mut n_inlined));
            if n_inlined > 0 {
                cx.report.count("builtin_aliases_inlined", n_inlined);
                variant(cx, &p, &render_plain(&q), &base_args, base_cmr, "builtin aliases replaced by their definitions");
            }
        }
        // ---- expressions wrapped in parentheses
        {
            let mut q = p.prog.clone();
            let mut r2 = rng.clone();
            for f in q.funcs_mut() {
                f.body.visit_mut(&mut |e| {
                    let wrap = match e {
                        Expr::Block(..) | Expr::Paren(_) | Expr::Hole(_) => false,
                        _ => r2.chance(1, 6),
                    };
                    if wrap {
                        let inner = std::mem::replace(e, Expr::Bool(false));
                        *e = Expr::Paren(Box::new(inner));
                    }
                });
            }
            variant(cx, &p, &render_plain(&q), &base_args, base_cmr, "expressions wrapped in parentheses");
        }
        // ---- whitespace and comments
        for _ in 0..3 {
            let st = Style::random(&mut rng);
            let text = render(&p.prog, &st).text;
            variant(cx, &p, &text, &base_args, base_cmr, "layout (whitespace / comments) changed");
        }
        // ---- the renamed program still behaves: one full run of a renamed variant under the monitors
        if i % 4 == 0 {
            let vars = names_of(&p.prog, Role::Variable);
            if let Some(old) = vars.first() {
                let mut q = p.prog.clone();
                rename(&mut q, Role::Variable, old, "let_x");
                q.number_calls();
                let qp = Prepared {
                    rendered: render(&q, &Style::plain()),
                    calls: collect_calls(&q),
                    prog: q,
                    witnesses: p.witnesses.clone(),
                    params: p.params.clone(),
                    primary: p.primary.clone(),
                    args: p.args.clone(),
                };
                if let Some(b) = build_or_report(cx, &qp, false, false) {
                    let ex = execute(cx, &qp, &b, &p.primary, false);
                    if record(cx, &ex.judgement, &qp, &p.primary, false, "rename-run") {
                        cx.report.count("renamed_programs_executed", 1);
                    }
                }
            }
        }
        if cx.report.samples.len() < 1 {
            cx.report.sample(json!({"base": p.text()}));
        }
    }
}

fn variant(cx: &mut Ctx, p: &Prepared, text: &str, args: &simfony::Arguments, base_cmr: [u8; 32], what: &str) {
    cx.report.evaluations += 1;
    match cmr_of(text, args) {
        Outcome::Ok(c) if c == base_cmr => {
            cx.report.count(&format!("variant_{}", what.split(' ').next().unwrap_or("x")), 1);
            cx.report.nontrivial.insert(fnv64(text.as_bytes()));
        }
        Outcome::Ok(_) => cx.report.violation(json!({"kind": "variant-cmr", "what": format!("{what}: the CMR changes"), "program": p.text(),
            "variant": text, "signature": format!("variant-cmr:{:016x}", fnv64(text.as_bytes()))})),
        o => cx.report.violation(json!({"kind": "variant-rejected", "what": format!("{what}: {}", o.map(|_| ()).brief()), "program": p.text(),
            "variant": text, "signature": format!("variant:{:016x}", fnv64(text.as_bytes()))})),
    }
}
