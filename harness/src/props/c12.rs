//! C12 — template instantiation equals literal substitution.

use std::collections::HashMap;

use serde_json::json;

use super::common::*;
use super::exec::*;
use crate::ast::*;
use crate::bridge::*;
use crate::gen::{generate, GenCfg};
use crate::pipeline::*;
use crate::layout::layout_type;
use crate::rng::{fnv64, Rng};
use crate::vals::*;

fn substitute(prog: &Program, args: &WMap) -> Program {
    let mut p = prog.clone();
    for f in p.funcs_mut() {
        f.body.visit_mut(&mut |e| {
            if let Expr::Param(n) = e {
                if let Some(v) = args.get(n) {
                    *e = val_to_expr(v, &mut |_| IntStyle::Dec);
                }
            }
        });
    }
    p
}

pub fn run(cx: &mut Ctx) {
    let n: u64 = if cx.thorough { 20_000 } else { 700 };
    for i in cx.cases(n) {
        if cx.out_of_time() {
            break;
        }
        cx.begin_case(i);
        one_program(cx, i);
    }
}

/// One parameter name written at two places: fine at one type (reported once), rejected at two
/// different types - also when the two types have the same layout.
fn param_reuse(cx: &mut Ctx, rng: &mut Rng) {
    let d = rng.below(3);
    let t1 = random_ty(rng, d, 8);
    let same_layout: Vec<Ty> = cast_variants(&t1).into_iter().filter(|t| *t != t1 && layout_type(t) == layout_type(&t1)).collect();
    let other_shape = if t1 == Ty::U(8) { Ty::U(16) } else { Ty::U(8) };
    let mut cases: Vec<(Ty, bool, &str)> = vec![(t1.clone(), true, "the same type twice"), (other_shape, false, "two types of different shape")];
    if !same_layout.is_empty() {
        cases.push((rng.pick(&same_layout).clone(), false, "two different types of the same layout"));
    }
    for (t2, ok, what) in cases {
        for in_function in [false, true] {
            let text = if in_function {
                format!("fn f() -> {} {{\n    param::X\n}}\n\nfn main() {{\n    let a: {} = param::X;\n    let b: {} = f();\n}}\n", render_ty(&t2), render_ty(&t1), render_ty(&t2))
            } else {
                format!("fn main() {{\n    let a: {} = param::X;\n    let b: {} = param::X;\n}}\n", render_ty(&t1), render_ty(&t2))
            };
            cx.report.evaluations += 1;
            let sig = format!("c12-reuse:{}:{}:{in_function}", render_ty(&t1), render_ty(&t2));
            match (new_template(&text), ok) {
                (Outcome::Ok(tpl), true) => {
                    let ps: Vec<(String, String)> = tpl.parameters().iter().map(|(n, t)| (n.to_string(), render_ty(&from_sim_ty(t)))).collect();
                    if ps != vec![("X".to_string(), render_ty(&t1))] {
                        cx.report.violation(json!({"kind": "parameters", "what": format!("param::X used twice at {}: parameters() = {ps:?}", render_ty(&t1)), "program": text, "signature": sig}));
                    } else {
                        cx.report.count("param_reuse_accepted", 1);
                    }
                }
                (Outcome::Err(_), false) => cx.report.count("param_reuse_rejected", 1),
                (o, _) => {
                    cx.report.violation(json!({"kind": "parameters", "what": format!("param::X written at {what} ({} and {}): {} (should be accepted: {ok})", render_ty(&t1), render_ty(&t2), o.map(|_| ()).brief()),
                        "program": text, "signature": sig}));
                }
            }
            cx.report.nontrivial.insert(fnv64(text.as_bytes()));
        }
    }
}

fn one_program(cx: &mut Ctx, i: u64) {
    let mut rng = cx.rng(&[i]);
    if i % 10 == 3 {
        param_reuse(cx, &mut rng);
        return;
    }
    let mut cfg = GenCfg::default();
    cfg.max_params = 1 + (i % 4) as usize;
    cfg.max_witnesses = 3;
    cfg.size_budget = 70;
    let g = generate(rng.clone(), cfg, &cx.golden);
    let p = match prepare(cx, g, &mut rng, &Style::plain()) {
        Ok(p) => p,
        Err(e) => {
            cx.report.harness_error(json!({"what": e}));
            return;
        }
    };
    let text = p.text().to_string();
    let key = fnv64(text.as_bytes());
    let tpl = match new_template(&text) {
        Outcome::Ok(t) => t,
        o => {
            cx.report.inconclusive(json!({"why": format!("template not accepted (C04's subject): {}", o.map(|_| ()).brief()), "program": text}));
            return;
        }
    };
    cx.report.evaluations += 1;
    // ---- parameters() reports exactly the param:: occurrences with their types
    let mut reported: Vec<(String, String)> = tpl
        .parameters()
        .iter()
        .map(|(n, t)| (n.to_string(), render_ty(&from_sim_ty(t))))
        .collect();
    reported.sort();
    let mut expected: Vec<(String, String)> = p.params.iter().map(|(n, t)| (n.clone(), render_ty(t))).collect();
    expected.sort();
    if reported != expected {
        cx.report.violation(json!({"kind": "parameters", "what": format!("parameters() = {reported:?}, the program uses {expected:?}"),
            "program": text, "signature": format!("c12-params:{key:016x}")}));
        return;
    }
    cx.report.count(&format!("programs_with_{}_params", p.params.len()), 1);
    let exact = arguments(&to_sim_map(&p.args, &p.params));

    // ---- instantiate fails exactly when a parameter is missing or mistyped; extras are ignored
    let mut variants: Vec<(String, simfony::Arguments, bool)> = vec![("exact".into(), exact.clone(), true)];
    {
        let mut sim = to_sim_map(&p.args, &p.params);
        sim.push(("ZZ_extra".into(), to_sim_val(&Val::u(16, 9), &Ty::U(16))));
        variants.push(("extra".into(), arguments(&sim), true));
    }
    if !p.params.is_empty() {
        let k = rng.below(p.params.len());
        let (name, t) = &p.params[k];
        let others: Vec<(String, simfony::Value)> = to_sim_map(&p.args, &p.params).into_iter().filter(|(n, _)| n != name).collect();
        variants.push((format!("missing {name}"), arguments(&others), false));
        let mut bad = others.clone();
        let bt = Ty::Tuple(vec![t.clone()]); // same layout, different type
        bad.push((name.clone(), to_sim_val(&Val::Tuple(vec![p.args[name].clone()]), &bt)));
        variants.push((format!("{name} of same-layout type {}", render_ty(&bt)), arguments(&bad), false));
        let mut bad2 = others.clone();
        let bt2 = if *t == Ty::U(8) { Ty::U(16) } else { Ty::U(8) };
        bad2.push((name.clone(), to_sim_val(&random_val(&bt2, &mut rng), &bt2)));
        variants.push((format!("{name} of other type {}", render_ty(&bt2)), arguments(&bad2), false));
    }
    // arguments the program has no parameter for change nothing: same bytes as the exact map,
    // however many there are and whatever their names (several maps = several hash orders)
    if let Outcome::Ok(c0) = instantiate(&tpl, &exact, false) {
        if let Outcome::Ok(base) = commit(&c0) {
            for k in 0..4usize {
                let mut sim = to_sim_map(&p.args, &p.params);
                for j in 0..=k {
                    let nm = ["ZZ_extra", "A", "unused_1", "Q9", "m"][(j + k) % 5].to_string();
                    if p.params.iter().all(|(n, _)| *n != nm) && sim.iter().all(|(n, _)| *n != nm) {
                        sim.push((nm, to_sim_val(&Val::u(32, (j * 7 + 1) as u128), &Ty::U(32))));
                    }
                }
                cx.report.evaluations += 1;
                let same = match instantiate(&tpl, &arguments(&sim), false) {
                    Outcome::Ok(c) => matches!(commit(&c), Outcome::Ok(info) if info.bytes == base.bytes),
                    _ => false,
                };
                if !same {
                    cx.report.violation(json!({"kind": "extra-arguments", "what": format!("instantiating with {} superfluous argument(s) does not give the program of the exact argument map", k + 1),
                        "program": text, "arguments": wmap_json(&p.args, &p.params), "signature": format!("c12-extra:{key:016x}")}));
                    return;
                }
                cx.report.count("extra_arguments_same_bytes", 1);
            }
        }
    }
    for (what, a, should) in &variants {
        cx.report.evaluations += 1;
        let r = instantiate(&tpl, a, false);
        let ok = matches!((&r, should), (Outcome::Ok(_), true) | (Outcome::Err(_), false));
        if !ok {
            cx.report.violation(json!({"kind": "instantiate", "what": format!("instantiate with {what} arguments -> {} (should succeed: {should})",
                r.map(|_| ()).brief()), "program": text, "arguments": wmap_json(&p.args, &p.params),
                "signature": format!("c12-inst:{key:016x}:{}", what.split(' ').next().unwrap_or(""))}));
            return;
        }
        cx.report.count(if *should { "instantiate_ok" } else { "instantiate_rejected" }, 1);
    }

    // ---- behaviour equals the literal-substituted program, for several argument values
    for round in 0..3 {
        let args: WMap = if round == 0 {
            p.args.clone()
        } else {
            p.params.iter().map(|(n, t)| (n.clone(), random_val(t, &mut rng))).collect()
        };
        let sim_args = arguments(&to_sim_map(&args, &p.params));
        // the template side
        let mut pt = Prepared {
            prog: p.prog.clone(),
            rendered: p.rendered.clone(),
            witnesses: p.witnesses.clone(),
            params: p.params.clone(),
            primary: p.primary.clone(),
            args: args.clone(),
            calls: p.calls.clone(),
        };
        pt.args = args.clone();
        // the substituted side
        let sub_prog = substitute(&p.prog, &args);
        let sub_rendered = render(&sub_prog, &Style::plain());
        let ps = Prepared {
            prog: sub_prog,
            rendered: sub_rendered,
            witnesses: p.witnesses.clone(),
            params: vec![],
            primary: p.primary.clone(),
            args: HashMap::new(),
            calls: p.calls.clone(),
        };
        for debug in [false, true] {
            let bt = match build(pt.text(), &sim_args, debug) {
                Ok(b) => b,
                Err(_) => {
                    cx.report.inconclusive(json!({"why": "instantiated template failed to compile (C03's subject)", "program": text}));
                    return;
                }
            };
            let bs = match build(ps.text(), &simfony::Arguments::default(), debug) {
                Ok(b) => b,
                Err(f) => {
                    let why = match f {
                        BuildFail::Rejected(e) | BuildFail::Backend(e) => last_line(&e),
                        BuildFail::Panic(pn) => pn.message,
                    };
                    cx.report.violation(json!({"kind": "substituted-rejected", "what": format!("the template compiles but the literal-substituted program does not: {why}"),
                        "program": text, "substituted": ps.text(), "signature": format!("c12-sub:{key:016x}")}));
                    return;
                }
            };
            cx.report.evaluations += 1;
            // An argument of integer or Boolean type is written as one constant, exactly what the
            // template embeds, so the two programs must be the same Simplicity expression.
            // (A tuple argument is embedded as one constant but written as a tuple of constants:
            // same behaviour, different expression; not judged.)
            let scalar_only = p.params.iter().all(|(_, t)| matches!(t, Ty::U(_) | Ty::Bool));
            if !debug && scalar_only && bt.commit.cmr != bs.commit.cmr {
                cx.report.violation(json!({"kind": "cmr", "what": "instantiated template and literal-substituted program have different CMRs",
                    "program": text, "substituted": ps.text(), "arguments": wmap_json(&args, &p.params), "signature": format!("c12-cmr:{key:016x}")}));
                return;
            }
            let (ws, _) = witness_assignments(&p, &mut rng, 2);
            for w in ws.iter().take(if cx.thorough { 12 } else { 5 }) {
                let et = execute(cx, &pt, &bt, w, debug);
                let es = execute(cx, &ps, &bs, w, debug);
                let ok_t = record(cx, &et.judgement, &pt, w, debug, "c12-run-template");
                let ok_s = record(cx, &es.judgement, &ps, w, debug, "c12-run-substituted");
                if ok_t && ok_s {
                    let ft = matches!(et.judgement, Judgement::Agree { finished: true, .. });
                    let fs = matches!(es.judgement, Judgement::Agree { finished: true, .. });
                    if ft != fs {
                        cx.report.violation(json!({"kind": "behaviour", "what": format!("template finishes = {ft}, substituted program finishes = {fs}"),
                            "case": case_json(&pt, w, debug), "substituted": ps.text(), "signature": format!("c12-beh:{key:016x}")}));
                    } else {
                        cx.report.count("paired_executions", 1);
                        cx.report.nontrivial.insert(fnv64(format!("{text}|{round}|{debug}|{}", render_val_dec(&Val::Tuple(w.values().cloned().collect()))).as_bytes()));
                    }
                }
            }
        }
        if round == 0 && cx.report.samples.len() < 2 && !p.params.is_empty() {
            cx.report.sample(json!({"template": text, "arguments": wmap_json(&args, &p.params), "substituted": ps.text()}));
        }
    }
}
