//! C13 — jets are callable with documented arity, order and result type; modelled jets
//! compute their closed-form meaning through Simfony.

use serde_json::json;
use simfony::simplicity::jet::Jet;

use super::common::*;
use super::exec::*;
use super::mini::*;
use crate::ast::*;
use crate::bridge::*;
use crate::golden::JetSig;
use crate::jetmodel;
use crate::layout::{layout_type, layout_value};
use crate::tracemachine::Event;
use crate::vals::*;

fn call_program(sig_name: &str, ret: &Ty, arg_tys: &[Ty]) -> (Program, Vec<(String, Ty)>) {
    let ws: Vec<(String, Ty)> = arg_tys
        .iter()
        .enumerate()
        .map(|(i, t)| (format!("A{i}"), t.clone()))
        .collect();
    // bind every argument at its type first: a bare `witness::A` would take any type
    let mut stmts: Vec<Stmt> = ws
        .iter()
        .enumerate()
        .map(|(i, (n, t))| let_(&format!("a{i}"), t.clone(), Expr::Witness(n.clone())))
        .collect();
    let args = (0..ws.len()).map(|i| Expr::var(&format!("a{i}"))).collect();
    stmts.push(let_("r", ret.clone(), Expr::jet(sig_name, args)));
    let prog = Program {
        items: vec![main_fn(stmts)],
        holes: vec![],
    };
    (prog, ws)
}

fn accepts(text: &str) -> Outcome<()> {
    match build(text, &simfony::Arguments::default(), false) {
        Ok(_) => Outcome::Ok(()),
        Err(BuildFail::Rejected(e)) | Err(BuildFail::Backend(e)) => Outcome::Err(e),
        Err(BuildFail::Panic(p)) => Outcome::Panic(p),
    }
}

pub fn run(cx: &mut Ctx) {
    let sigs: Vec<JetSig> = cx.golden.sigs.clone();
    let n_random = if cx.thorough { 1_500 } else { 400 };
    for (idx, sig) in sigs.iter().enumerate() {
        if idx % cx.nshards != cx.shard {
            continue;
        }
        if let Some(c) = cx.only_case {
            if c != idx as u64 {
                continue;
            }
        }
        cx.begin_case(idx as u64);
        one_jet(cx, sig, n_random);
    }
}

fn one_jet(cx: &mut Ctx, sig: &JetSig, n_random: usize) {
    let reserved = sig.name == "verify" || sig.name == "check_sig_verify";
    // (0) the documented signature must fit the Simplicity jet
    let src = tytree_of(&sig.jet.source_ty().to_final());
    let tgt = tytree_of(&sig.jet.target_ty().to_final());
    if layout_type(&Ty::Tuple(sig.rparams.clone())) != src || layout_type(&sig.rret) != tgt {
        cx.report.harness_error(json!({"what": format!("golden signature of {} does not fit the Simplicity jet", sig.name)}));
        return;
    }
    // (a)/(b) the documented call
    let (prog, ws) = call_program(&sig.name, &sig.ret, &sig.params);
    let text = render_plain(&prog);
    cx.report.evaluations += 1;
    let acc = accepts(&text);
    match (&acc, reserved) {
        (Outcome::Ok(()), false) | (Outcome::Err(_), true) => {
            cx.report.count("documented_call_ok", 1);
            cx.report.nontrivial.insert(crate::rng::fnv64(text.as_bytes()));
        }
        (o, _) => {
            cx.report.violation(json!({"kind": "acceptance", "what": format!("jet {}: documented call `{}` -> {} (reserved = {reserved})",
                sig.name, text.trim(), o.brief()), "program": text, "signature": format!("jetcall:{}", sig.name)}));
            return;
        }
    }
    if reserved {
        return;
    }
    if cx.report.samples.len() < 2 {
        cx.report.sample(json!({"jet": sig.name, "documented_call": text}));
    }
    // (c) wrong arity and swapped arguments are rejected
    let mut variants: Vec<(String, Vec<Ty>)> = vec![];
    if !sig.params.is_empty() {
        variants.push(("one argument fewer".into(), sig.params[..sig.params.len() - 1].to_vec()));
    }
    let mut more = sig.params.clone();
    more.push(Ty::U(8));
    variants.push(("one argument more".into(), more));
    for i in 0..sig.rparams.len() {
        for j in i + 1..sig.rparams.len() {
            if sig.rparams[i] != sig.rparams[j] {
                let mut sw = sig.params.clone();
                sw.swap(i, j);
                variants.push((format!("arguments {i} and {j} swapped"), sw));
            }
        }
    }
    for (what, tys) in variants {
        let (prog, _) = call_program(&sig.name, &sig.ret, &tys);
        let text = render_plain(&prog);
        cx.report.evaluations += 1;
        match accepts(&text) {
            Outcome::Err(_) => {
                cx.report.count("wrong_call_rejected", 1);
            }
            o => {
                cx.report.violation(json!({"kind": "acceptance", "what": format!("jet {}: call with {what} -> {}", sig.name, o.brief()),
                    "program": text, "signature": format!("jetcall-bad:{}:{what}", sig.name)}));
            }
        }
    }
    // a result of another type is rejected
    {
        let other = if sig.rret == Ty::U(8) { Ty::U(16) } else { Ty::U(8) };
        let (prog, _) = call_program(&sig.name, &other, &sig.params);
        let text = render_plain(&prog);
        cx.report.evaluations += 1;
        if let Outcome::Ok(()) = accepts(&text) {
            cx.report.violation(json!({"kind": "acceptance", "what": format!("jet {}: result bound at {} accepted", sig.name, render_ty(&other)),
                "program": text, "signature": format!("jetcall-ret:{}", sig.name)}));
        }
    }

    // a result bound at a type of the same layout but another name is rejected as well
    // (the documented result TYPE is what the property fixes, not only its shape)
    for other in cast_variants(&sig.rret).into_iter().filter(|t| *t != sig.rret).take(3) {
        if layout_type(&other) != layout_type(&sig.rret) {
            continue;
        }
        let (prog, _) = call_program(&sig.name, &other, &sig.params);
        let text = render_plain(&prog);
        cx.report.evaluations += 1;
        match accepts(&text) {
            Outcome::Ok(()) => {
                cx.report.violation(json!({"kind": "acceptance", "what": format!("jet {}: result (documented {}) bound at the same-layout type {} accepted", sig.name, render_ty(&sig.rret), render_ty(&other)),
                    "program": text, "signature": format!("jetcall-ret-layout:{}", sig.name)}));
            }
            _ => cx.report.count("same_layout_result_type_rejected", 1),
        }
    }

    // ... and so is an argument of a same-layout type with another name
    for (i, pt) in sig.rparams.iter().enumerate() {
        let Some(other) = cast_variants(pt).into_iter().find(|t| t != pt && layout_type(t) == layout_type(pt)) else { continue };
        let mut tys = sig.params.clone();
        tys[i] = other.clone();
        let (prog, _) = call_program(&sig.name, &sig.ret, &tys);
        let text = render_plain(&prog);
        cx.report.evaluations += 1;
        match accepts(&text) {
            Outcome::Ok(()) => {
                cx.report.violation(json!({"kind": "acceptance", "what": format!("jet {}: argument {i} (documented {}) of the same-layout type {} accepted", sig.name, render_ty(pt), render_ty(&other)),
                    "program": text, "signature": format!("jetcall-arg-layout:{}:{i}", sig.name)}));
            }
            _ => cx.report.count("same_layout_argument_type_rejected", 1),
        }
    }

    // (d) modelled jets: values
    let probe_args: Vec<Val> = sig.rparams.iter().map(zero_val).collect();
    if jetmodel::model(sig, &probe_args).is_none() || !is_sum_free(&sig.rret) {
        cx.report.count("jets_without_model", 1);
        unmodelled_argument_order(cx, sig, &ws);
        return;
    }
    cx.report.count("jets_with_model", 1);
    cx.report.note("modelled_jets", &sig.name);
    let mut stmts = vec![let_(
        "r",
        sig.rret.clone(),
        Expr::jet(&sig.name, ws.iter().map(|(n, _)| Expr::Witness(n.clone())).collect()),
    )];
    let leaf_ws = {
        let mut g = prober(cx, true);
        g.probe(&Expr::var("r"), &sig.rret, &mut stmts, 0);
        g.probe_leaf_witnesses.clone()
    };
    let mut witnesses: Vec<(String, Ty)> = ws
        .iter()
        .zip(&sig.rparams)
        .map(|((n, _), t)| (n.clone(), t.clone()))
        .collect();
    witnesses.extend(leaf_ws.iter().cloned());
    let prog = Program {
        items: vec![main_fn(stmts)],
        holes: vec![],
    };
    let p = match prepared_from(cx, prog, witnesses, vec![], WMap::new(), WMap::new(), &Style::plain()) {
        Ok(p) => p,
        Err(e) => {
            cx.report.harness_error(json!({"what": e, "jet": sig.name}));
            return;
        }
    };
    let Some(built) = build_or_report(cx, &p, false, true) else { return };
    // argument tuples: boundaries, then random (asymmetric with overwhelming probability)
    let mut rng = cx.rng(&[crate::rng::fnv64(sig.name.as_bytes())]);
    let mut tuples: Vec<Vec<Val>> = vec![];
    tuples.push(sig.rparams.iter().map(|t| boundary_vals(t)[0].clone()).collect());
    tuples.push(sig.rparams.iter().map(|t| boundary_vals(t).last().unwrap().clone()).collect());
    for k in 0..sig.rparams.len() {
        // one argument at max, the others at zero, and vice versa
        tuples.push(
            sig.rparams
                .iter()
                .enumerate()
                .map(|(i, t)| if i == k { boundary_vals(t).last().unwrap().clone() } else { boundary_vals(t)[0].clone() })
                .collect(),
        );
        tuples.push(
            sig.rparams
                .iter()
                .enumerate()
                .map(|(i, t)| if i != k { boundary_vals(t).last().unwrap().clone() } else { boundary_vals(t)[0].clone() })
                .collect(),
        );
    }
    for _ in 0..n_random {
        tuples.push(sig.rparams.iter().map(|t| random_val(t, &mut rng)).collect());
    }
    tuples.dedup();
    for args in tuples {
        let expected = match jetmodel::model(sig, &args) {
            Some(Some(v)) => v,
            _ => continue,
        };
        let mut leaves = vec![];
        if let Err(e) = probe_leaves(&expected, &sig.rret, &mut leaves) {
            cx.report.harness_error(json!({"what": e, "jet": sig.name}));
            return;
        }
        let mut w = WMap::new();
        for ((n, _), v) in ws.iter().zip(&args) {
            w.insert(n.clone(), v.clone());
        }
        for ((n, _), v) in leaf_ws.iter().zip(&leaves) {
            w.insert(n.clone(), v.clone());
        }
        let ex = execute(cx, &p, &built, &w, false);
        if !record(cx, &ex.judgement, &p, &w, false, &format!("jetrun:{}", sig.name)) {
            continue;
        }
        // the native model is the oracle: the jet event must carry exactly these values
        let want_in = layout_value(&Val::Tuple(args.clone()));
        let want_out = layout_value(&expected);
        let trace = ex.redeem.as_ref().and_then(|r| r.trace.as_ref());
        let ev = trace.and_then(|t| {
            t.events.iter().find_map(|e| match e {
                Event::Jet { name, input, output } if *name == sig.name => Some((input.clone(), output.clone())),
                _ => None,
            })
        });
        let finished = matches!(ex.judgement, Judgement::Agree { finished: true, .. });
        let ok = match &ev {
            Some((i, Some(o))) => *i == want_in && *o == want_out && finished,
            _ => false,
        };
        if ok {
            cx.report.count("model_agreements", 1);
            cx.report
                .nontrivial
                .insert(crate::rng::fnv64(format!("{}|{}", sig.name, want_in.show()).as_bytes()));
        } else {
            cx.report.violation(json!({
                "kind": "jet-value",
                "what": format!("jet {}: arguments {} — native model prescribes input {} output {} and a finishing run; observed event {:?}, finished = {finished}",
                    sig.name, render_val_dec(&Val::Tuple(args.clone())), want_in.brief(), want_out.brief(),
                    ev.map(|(i, o)| (i.brief(), o.map(|o| o.brief())))),
                "case": case_json(&p, &w, false),
                "signature": format!("jetvalue:{}", sig.name),
            }));
        }
    }
}

/// Jets without a native model (hashes, elliptic curve, transaction introspection): the call is
/// executed with random arguments and the jet event must carry exactly the written arguments in
/// the written order (its output is whatever the C jet computes).
fn unmodelled_argument_order(cx: &mut Ctx, sig: &JetSig, ws: &[(String, Ty)]) {
    if sig.rparams.is_empty() {
        return;
    }
    let stmts = vec![let_(
        "r",
        sig.rret.clone(),
        Expr::jet(&sig.name, ws.iter().map(|(n, _)| Expr::Witness(n.clone())).collect()),
    )];
    let witnesses: Vec<(String, Ty)> = ws.iter().zip(&sig.rparams).map(|((n, _), t)| (n.clone(), t.clone())).collect();
    let prog = Program { items: vec![main_fn(stmts)], holes: vec![] };
    let p = match prepared_from(cx, prog, witnesses, vec![], WMap::new(), WMap::new(), &Style::plain()) {
        Ok(p) => p,
        Err(e) => {
            cx.report.harness_error(json!({"what": e, "jet": sig.name}));
            return;
        }
    };
    let Some(built) = build_or_report(cx, &p, false, true) else { return };
    let mut rng = cx.rng(&[crate::rng::fnv64(sig.name.as_bytes()), 99]);
    for _ in 0..3 {
        let args: Vec<Val> = sig.rparams.iter().map(|t| random_val(t, &mut rng)).collect();
        let mut w = WMap::new();
        for ((n, _), v) in ws.iter().zip(&args) {
            w.insert(n.clone(), v.clone());
        }
        let ex = execute(cx, &p, &built, &w, false);
        if !record(cx, &ex.judgement, &p, &w, false, &format!("jetorder:{}", sig.name)) {
            continue;
        }
        let want_in = layout_value(&Val::Tuple(args.clone()));
        let got = ex.redeem.as_ref().and_then(|r| r.trace.as_ref()).and_then(|t| {
            t.events.iter().find_map(|e| match e {
                Event::Jet { name, input, .. } if *name == sig.name => Some(input.clone()),
                _ => None,
            })
        });
        if got.as_ref() == Some(&want_in) {
            cx.report.count("unmodelled_jet_inputs_checked", 1);
            cx.report.nontrivial.insert(crate::rng::fnv64(format!("order|{}|{}", sig.name, want_in.show()).as_bytes()));
        } else {
            cx.report.violation(json!({"kind": "jet-arguments", "what": format!("jet {}: the written arguments {} must reach the jet as {}, observed {:?}",
                sig.name, render_val_dec(&Val::Tuple(args)), want_in.brief(), got.map(|g| g.brief())), "case": case_json(&p, &w, false),
                "signature": format!("jetorder:{}", sig.name)}));
        }
    }
}
