//! C14 — debug symbols are behaviour-neutral and point at the right call.

use std::collections::{HashMap, HashSet};

use serde_json::json;
use simfony::simplicity::jet::Elements;
use simfony::simplicity::node::Inner;
use simfony::simplicity::{Cmr, CommitNode, FailEntropy};
use simfony::types::StructuralType;
use simfony::value::StructuralValue;

use super::common::*;
use super::exec::*;
use crate::ast::*;
use crate::bridge::*;
use crate::gen::{generate, GenCfg};
use crate::interp::REvent;
use crate::layout::{layout_value, Tree};
use crate::rng::{fnv64, Rng};
use crate::tracemachine::Event;

/// Hidden CMRs of all `assertl` / `assertr` nodes of a commit program.
fn hidden_cmrs(root: &CommitNode<Elements>) -> (Vec<Cmr>, Vec<Cmr>) {
    let mut seen: HashSet<*const CommitNode<Elements>> = HashSet::new();
    let mut stack = vec![root];
    let (mut l, mut r) = (vec![], vec![]);
    while let Some(n) = stack.pop() {
        if !seen.insert(n as *const _) {
            continue;
        }
        match n.inner() {
            Inner::AssertL(c, cmr) => {
                l.push(*cmr);
                stack.push(c);
            }
            Inner::AssertR(cmr, c) => {
                r.push(*cmr);
                stack.push(c);
            }
            Inner::InjL(c) | Inner::InjR(c) | Inner::Take(c) | Inner::Drop(c) => stack.push(c),
            Inner::Comp(a, b) | Inner::Case(a, b) | Inner::Pair(a, b) => {
                stack.push(a);
                stack.push(b);
            }
            Inner::Disconnect(a, _) => stack.push(a),
            _ => {}
        }
    }
    (l, r)
}

pub fn run(cx: &mut Ctx) {
    let n: u64 = if cx.thorough { 30_000 } else { 900 };
    for i in cx.cases(n) {
        if cx.out_of_time() {
            break;
        }
        cx.begin_case(i);
        // (a big program costs as much as hundreds of ordinary ones)
        if i % (if cx.thorough { 400 } else { 40 }) == 13 {
            let mut rng = cx.rng(&[i, 14]);
            match many_sites_program(cx, &mut rng) {
                Ok(p) => {
                    cx.report.count("programs_with_over_256_tracked_calls", (p.calls.values().filter(|n| n.is_tracked()).count() > 256) as u64);
                    judge_program(cx, p, rng);
                }
                Err(e) => cx.report.harness_error(json!({"what": e})),
            }
            continue;
        }
        one_program(cx, i);
    }
}

fn one_program(cx: &mut Ctx, i: u64) {
    let mut rng = cx.rng(&[i]);
    let mut cfg = GenCfg::default();
    cfg.size_budget = 80;
    cfg.max_witnesses = 3;
    cfg.panic_pct = 20;
    cfg.all_jets = i % 5 == 0;
    let g = generate(rng.clone(), cfg, &cx.golden);
    // layouts: tabs, CRLF, comments (also non-ASCII, also inside calls), multi-line calls
    let style = if i % 3 == 0 { Style::plain() } else { Style::random(&mut rng) };
    let p = match prepare(cx, g, &mut rng, &style) {
        Ok(p) => p,
        Err(e) => {
            cx.report.harness_error(json!({"what": e}));
            return;
        }
    };
    judge_program(cx, p, rng);
}

/// A straight-line `main` with several hundred tracked call sites of every kind, all of which
/// are reached at run time (marker identity must hold beyond any small table or counter width).
fn many_sites_program(cx: &mut Ctx, rng: &mut Rng) -> Result<Prepared, String> {
    use super::mini::*;
    let n = 140 + rng.below(if cx.thorough { 700 } else { 260 });
    let mut stmts = vec![];
    let lit = |k: usize| Expr::Int(((k * 37 + 11) % 65536).to_string());
    for k in 0..n {
        stmts.push(match rng.below(5) {
            0 => assert_(Expr::jet("eq_16", vec![lit(k), lit(k)])),
            1 => let_(&format!("a{k}"), Ty::U(16), Expr::call(CallName::Dbg, vec![lit(k)])),
            2 => let_(&format!("b{k}"), Ty::U(16), Expr::call(CallName::Unwrap, vec![Expr::Some_(Box::new(lit(k)))])),
            3 => let_(&format!("c{k}"), Ty::U(16), Expr::call(CallName::UnwrapLeft(Ty::U(8)), vec![Expr::Left(Box::new(lit(k)))])),
            _ => let_(&format!("d{k}"), Ty::U(16), Expr::call(CallName::UnwrapRight(Ty::Bool), vec![Expr::Right(Box::new(lit(k)))])),
        });
    }
    let prog = Program { items: vec![main_fn(stmts)], holes: vec![] };
    let style = if rng.chance(1, 2) { Style::plain() } else { Style::random(rng) };
    prepared_from(cx, prog, vec![], vec![], WMap::new(), WMap::new(), &style)
}

fn judge_program(cx: &mut Ctx, p: Prepared, mut rng: Rng) {
    let text = p.text().to_string();
    let key = fnv64(text.as_bytes());
    let Some(plain) = build_or_report(cx, &p, false, false) else { return };
    let Some(dbg) = build_or_report(cx, &p, true, false) else { return };
    cx.report.evaluations += 1;
    // the debug build's CMR depends on nothing but the text
    if let Some(again) = build_or_report(cx, &p, true, false) {
        if again.commit.cmr != dbg.commit.cmr {
            cx.report.violation(json!({"kind": "cmr", "what": "two debug builds of one text have different CMRs", "program": text,
                "signature": format!("c14-cmr:{key:016x}")}));
            return;
        }
    }
    // ---- static: every hidden CMR of the debug build is `fail 0` or a known symbol of one call
    let fail0 = Cmr::fail(FailEntropy::ZERO);
    let syms = dbg.compiled.debug_symbols();
    let commit = dbg.compiled.commit();
    let (hl, hr) = hidden_cmrs(&commit);
    let tracked: Vec<(usize, &CallName, String)> = p
        .calls
        .iter()
        .filter(|(_, n)| n.is_tracked())
        .filter_map(|(id, n)| p.rendered.call_text(*id).map(|t| (*id, n, strip_comments(t))))
        .collect();
    let mut marker_cmrs: HashSet<[u8; 32]> = HashSet::new();
    for c in hr.iter() {
        if *c != fail0 {
            cx.report.violation(json!({"kind": "static", "what": format!("assertr with hidden CMR {c} that is not fail 0"), "program": text,
                "signature": format!("c14-static:{key:016x}")}));
            return;
        }
    }
    for c in hl.iter().filter(|c| **c != fail0) {
        marker_cmrs.insert(cmr_bytes(*c));
        let Some(sym) = syms.get(c) else {
            cx.report.violation(json!({"kind": "static", "what": format!("marker {c} embedded in the debug build is not in debug_symbols()"),
                "program": text, "signature": format!("c14-static:{key:016x}")}));
            return;
        };
        let matches: Vec<usize> = tracked
            .iter()
            .filter(|(_, n, t)| symbol_matches(sym, n, t).is_ok())
            .map(|(id, _, _)| *id)
            .collect();
        if matches.is_empty() {
            cx.report.violation(json!({"kind": "static", "what": format!("marker {c}: symbol text `{}` kind {:?} is no call of the program", sym.text(), sym.name()),
                "program": text, "signature": format!("c14-static:{key:016x}")}));
            return;
        }
        cx.report.count("markers_resolved", 1);
    }
    // the plain build embeds no markers
    let (pl, _) = hidden_cmrs(&plain.compiled.commit());
    if pl.iter().any(|c| *c != fail0) {
        cx.report.violation(json!({"kind": "static", "what": "the build without debug symbols contains a marker", "program": text,
            "signature": format!("c14-plain:{key:016x}")}));
        return;
    }

    // ---- dynamic: same verdict with and without symbols; markers hit in prescribed order;
    //      one marker per call site and one call site per marker; reconstructed values
    let mut cmr_of_call: HashMap<usize, [u8; 32]> = HashMap::new();
    let mut call_of_cmr: HashMap<[u8; 32], usize> = HashMap::new();
    let (ws, _) = witness_assignments(&p, &mut rng, 2);
    for w in ws.iter().take(if cx.thorough { 16 } else { 6 }) {
        let ep = execute(cx, &p, &plain, w, false);
        let ed = execute(cx, &p, &dbg, w, true);
        let ok_p = record(cx, &ep.judgement, &p, w, false, "c14-run");
        let ok_d = record(cx, &ed.judgement, &p, w, true, "c14-run");
        if !(ok_p && ok_d) {
            continue;
        }
        let fp = matches!(ep.judgement, Judgement::Agree { finished: true, .. });
        let fd = matches!(ed.judgement, Judgement::Agree { finished: true, .. });
        if fp != fd {
            cx.report.violation(json!({"kind": "neutrality", "what": format!("plain build finishes = {fp}, debug build finishes = {fd}"),
                "case": case_json(&p, w, true), "signature": format!("c14-neutral:{key:016x}")}));
            continue;
        }
        cx.report.count("paired_executions", 1);
        let trace = match ed.redeem.as_ref().and_then(|r| r.trace.as_ref()) {
            Some(t) => t,
            None => continue,
        };
        // events are already position-matched by `execute`; walk both logs together
        for (re, oe) in ed.reference.events.iter().zip(trace.events.iter()) {
            if let (REvent::Marker { call, args }, Event::Marker { cmr, args: oargs }) = (re, oe) {
                cx.report.count("marker_events", 1);
                let prev = cmr_of_call.insert(*call, *cmr);
                let prev2 = call_of_cmr.insert(*cmr, *call);
                if prev.map_or(false, |c| c != *cmr) || prev2.map_or(false, |c| c != *call) {
                    cx.report.violation(json!({"kind": "marker-identity", "what": format!("call site #{call} `{}` and marker {} are not in one-to-one correspondence",
                        p.rendered.call_text(*call).unwrap_or(""), hex(&cmr[..6])), "case": case_json(&p, w, true),
                        "signature": format!("c14-ident:{key:016x}")}));
                    return;
                }
                // reconstruct the value from the Simplicity value, where nothing was pruned away
                if oargs == args {
                    let c = Cmr::from_byte_array(*cmr);
                    if let (Some(sym), Some(name)) = (syms.get(&c), p.calls.get(call)) {
                        check_map_value(cx, &p, sym, name, args, w, key);
                    }
                } else {
                    cx.report.count("marker_values_pruned_not_judged", 1);
                }
            }
        }
        cx.report.nontrivial.insert(fnv64(format!("{text}|{}", render_val_dec(&Val::Tuple(w.values().cloned().collect()))).as_bytes()));
    }
    if cx.report.samples.len() < 2 && !tracked.is_empty() {
        let (id, _, t) = &tracked[0];
        cx.report.sample(json!({"program": text, "call_site": id, "call_text": t,
            "marker": cmr_of_call.get(id).map(|c| hex(c))}));
    }
}

fn check_map_value(cx: &mut Ctx, p: &Prepared, sym: &simfony::debug::TrackedCall, name: &CallName, args: &Tree, w: &WMap, key: u64) {
    use simfony::debug::TrackedCallName as T;
    let ty = match sym.name() {
        T::Debug(t) | T::UnwrapLeft(t) | T::UnwrapRight(t) => Some(t.clone()),
        _ => None,
    };
    let sv: StructuralValue = match &ty {
        Some(t) => {
            let st = StructuralType::from(t);
            let fin: &std::sync::Arc<simfony::simplicity::types::Final> = &st.clone().into();
            match value_of_tree(args, fin) {
                Some(v) => StructuralValue::from(v),
                None => {
                    cx.report.violation(json!({"kind": "map-value", "what": format!("marker arguments {} do not inhabit the symbol's type {t}", args.brief()),
                        "case": case_json(p, w, true), "signature": format!("c14-value:{key:016x}")}));
                    return;
                }
            }
        }
        None => StructuralValue::from(simfony::simplicity::Value::unit()),
    };
    let mapped = guard(|| sym.map_value(&sv));
    let ok = match (&mapped, name) {
        (Ok(Some(simfony::either::Either::Right(d))), CallName::Dbg) => layout_value(&from_sim_val(d.value())) == *args,
        (Ok(Some(simfony::either::Either::Left(f))), CallName::UnwrapLeft(_)) => match f.name() {
            simfony::debug::FallibleCallName::UnwrapLeft(v) => layout_value(&from_sim_val(v)) == *args,
            _ => false,
        },
        (Ok(Some(simfony::either::Either::Left(f))), CallName::UnwrapRight(_)) => match f.name() {
            simfony::debug::FallibleCallName::UnwrapRight(v) => layout_value(&from_sim_val(v)) == *args,
            _ => false,
        },
        (Ok(Some(simfony::either::Either::Left(f))), CallName::Assert) => matches!(f.name(), simfony::debug::FallibleCallName::Assert),
        (Ok(Some(simfony::either::Either::Left(f))), CallName::Panic) => matches!(f.name(), simfony::debug::FallibleCallName::Panic),
        (Ok(Some(simfony::either::Either::Left(f))), CallName::Jet(_)) => matches!(f.name(), simfony::debug::FallibleCallName::Jet),
        (Ok(Some(simfony::either::Either::Left(f))), CallName::Unwrap) => matches!(f.name(), simfony::debug::FallibleCallName::Unwrap),
        _ => false,
    };
    if ok {
        cx.report.count("map_value_checked", 1);
        if matches!(name, CallName::Dbg) {
            cx.report.count("dbg_values_reconstructed", 1);
        }
    } else {
        cx.report.violation(json!({"kind": "map-value", "what": format!("map_value of marker for `{}` with arguments {} gives {:?}",
            sym.text(), args.brief(), mapped.map(|m| m.map(|e| format!("{e:?}")))), "case": case_json(p, w, true),
            "signature": format!("c14-value:{key:016x}")}));
    }
}
