//! C19 — same source, same bytes: in-process, across processes, via simc.

use std::process::{Command, Stdio};

use serde_json::json;

use super::c06::example_texts;
use super::common::*;
use crate::ast::*;
use crate::bridge::*;
use crate::gen::{generate, GenCfg};
use crate::pipeline::*;
use crate::rng::fnv64;
use crate::vals::*;

fn mentions_alias(t: &Ty) -> bool {
    match t {
        Ty::Alias(_) => true,
        Ty::Tuple(ts) => ts.iter().any(mentions_alias),
        Ty::Array(x, _) | Ty::List(x, _) | Ty::Option(x) => mentions_alias(x),
        Ty::Either(l, r) => mentions_alias(l) || mentions_alias(r),
        _ => false,
    }
}

pub fn base64(data: &[u8]) -> String {
    const T: &[u8; 64] = b"ABCDEFGHIJKLMNOPQRSTUVWXYZabcdefghijklmnopqrstuvwxyz0123456789+/";
    let mut s = String::new();
    for c in data.chunks(3) {
        let b = [c[0], *c.get(1).unwrap_or(&0), *c.get(2).unwrap_or(&0)];
        let n = ((b[0] as u32) << 16) | ((b[1] as u32) << 8) | b[2] as u32;
        s.push(T[(n >> 18) as usize & 63] as char);
        s.push(T[(n >> 12) as usize & 63] as char);
        s.push(if c.len() > 1 { T[(n >> 6) as usize & 63] as char } else { '=' });
        s.push(if c.len() > 2 { T[n as usize & 63] as char } else { '=' });
    }
    s
}

/// What one compilation looks like from outside: Ok(hex bytes | cmr | sorted symbols) or Err(message).
pub fn fingerprint(text: &str, debug: bool, args_text: Option<&str>) -> String {
    use simfony::parse::ParseFromStr;
    let args = match args_text {
        None => simfony::Arguments::default(),
        Some(t) => match call(|| simfony::Arguments::parse_from_str(t)) {
            Outcome::Ok(a) => a,
            _ => return "ARGS-UNREADABLE".to_string(),
        },
    };
    match build(text, &args, debug) {
        Ok(b) => {
            // the debug symbol table, through the public lookup by CMR of every marker in the program
            let mut syms: Vec<String> = vec![];
            let commit = b.compiled.commit();
            let mut stack = vec![commit.as_ref()];
            let mut seen = std::collections::HashSet::new();
            while let Some(n) = stack.pop() {
                if !seen.insert(n as *const _) {
                    continue;
                }
                use simfony::simplicity::node::Inner;
                match n.inner() {
                    Inner::AssertL(c, cmr) => {
                        if let Some(s) = b.compiled.debug_symbols().get(cmr) {
                            syms.push(format!("{cmr}={:?}:{}", s.name(), s.text()));
                        }
                        stack.push(c);
                    }
                    Inner::AssertR(_, c) | Inner::InjL(c) | Inner::InjR(c) | Inner::Take(c) | Inner::Drop(c) => stack.push(c),
                    Inner::Comp(x, y) | Inner::Case(x, y) | Inner::Pair(x, y) => {
                        stack.push(x);
                        stack.push(y);
                    }
                    Inner::Disconnect(x, _) => stack.push(x),
                    _ => {}
                }
            }
            syms.sort();
            syms.dedup();
            format!("OK {} {} {}", hex(&b.commit.bytes), hex(&b.commit.cmr), syms.join("|"))
        }
        // the property fixes bytes, CMR and the exit status, not the wording of an error
        // (which parameter is reported missing first depends on hash-map order; noted in DESIGN.md)
        Err(BuildFail::Rejected(_)) | Err(BuildFail::Backend(_)) => "ERR".to_string(),
        Err(BuildFail::Panic(p)) => format!("PANIC {} @ {}", p.message, p.location),
    }
}

/// Child mode: print the fingerprints of the files given on the command line.
pub fn run_child(files: &[String]) {
    for f in files {
        let text = std::fs::read_to_string(f).unwrap_or_default();
        let args = std::fs::read_to_string(format!("{f}.args")).ok();
        for debug in [false, true] {
            println!("FP {f} {debug} {}", fingerprint(&text, debug, args.as_deref()).replace('\n', "\\n"));
        }
    }
}

pub fn run(cx: &mut Ctx) {
    let simc = std::env::var("VERIF_SIMC").ok();
    let bin = std::env::var("VERIF_BIN").unwrap_or_else(|_| std::env::current_exe().unwrap().to_string_lossy().to_string());
    let dir = std::env::temp_dir().join(format!("simfony-verif-c19-{}-{}", std::process::id(), cx.shard));
    let _ = std::fs::create_dir_all(&dir);
    let n: u64 = if cx.thorough { 300 } else { 24 };
    let n_procs = if cx.thorough { 16 } else { 8 };
    // (file name, program text, argument module for the programs with parameters)
    let mut files: Vec<(String, String, Option<String>)> = vec![];
    // shipped examples (shard 0) and generated programs dense in hash-map backed tables
    if cx.shard == 0 && cx.only_case.is_none() {
        for (name, text) in example_texts().into_iter().filter(|(n, _)| n.ends_with(".simf")) {
            files.push((name, text, None));
        }
    }
    for i in cx.cases(n) {
        cx.begin_case(i);
        let mut rng = cx.rng(&[i]);
        let mut cfg = GenCfg::default();
        cfg.size_budget = 120;
        cfg.max_stmts = 8;
        cfg.max_witnesses = 8;
        cfg.max_params = if i % 4 == 0 { 3 } else { 0 };
        cfg.panic_pct = 5;
        let g = generate(rng.clone(), cfg, &cx.golden);
        match prepare(cx, g, &mut rng, &Style::plain()) {
            Ok(p) => {
                let mut t = p.text().to_string();
                if i % 3 == 1 {
                    // twin functions: a copy of a function with two same-typed parameters under
                    // another name and with the two parameter names exchanged (same parameter
                    // types, same body text, other meaning), called from main as well
                    let mut q = p.prog.clone();
                    let pick = q.items.iter().enumerate().find_map(|(k, it)| match it {
                        Item::Func(f) if f.name != "main" && f.params.iter().all(|(_, t)| !mentions_alias(t)) => {
                            let n = f.params.len();
                            (0..n).flat_map(|a| (a + 1..n).map(move |b| (a, b))).find(|(a, b)| f.params[*a].1 == f.params[*b].1).map(|(a, b)| (k, a, b))
                        }
                        _ => None,
                    });
                    if let Some((k, a, b)) = pick {
                        if let Item::Func(f) = q.items[k].clone() {
                            let mut g = f.clone();
                            g.name = format!("{}_twin", f.name);
                            let (na, nb) = (g.params[a].0.clone(), g.params[b].0.clone());
                            g.params[a].0 = nb;
                            g.params[b].0 = na;
                            let args: Vec<Expr> = g.params.iter().map(|(_, t)| val_to_expr(&random_val(t, &mut rng), &mut |_| IntStyle::Dec)).collect();
                            let ret = g.ret.clone().unwrap_or(Ty::unit());
                            let call = Stmt::Let(Pat::Ignore, ret, Expr::call(CallName::Fn(g.name.clone()), args));
                            q.items.insert(k + 1, Item::Func(g));
                            if let Some(Item::Func(m)) = q.items.iter_mut().find(|it| matches!(it, Item::Func(f) if f.name == "main")) {
                                if let Expr::Block(stmts, _) = &mut m.body {
                                    stmts.insert(0, call);
                                }
                            }
                            q.number_calls();
                            t = render_plain(&q);
                            cx.report.count("programs_with_twin_functions", 1);
                        }
                    }
                }
                if i % 7 == 3 {
                    // a program that must be rejected, with a message
                    t = t.replacen("fn main()", "fn main(x: u8)", 1);
                }
                // programs with parameters: mostly with their arguments (as a `mod param` text the
                // child processes parse themselves), sometimes without (instantiate must fail)
                let args = if !p.params.is_empty() && i % 8 != 4 {
                    cx.report.count("programs_with_arguments", 1);
                    // every other map also names an argument the program has no parameter for
                    let mut sim = to_sim_map(&p.args, &p.params);
                    if (i / 8) % 2 == 0 && p.params.iter().all(|(n, _)| n != "ZZ_UNUSED") {
                        sim.push(("ZZ_UNUSED".to_string(), to_sim_val(&Val::u(32, 7), &Ty::U(32))));
                        cx.report.count("programs_with_a_superfluous_argument", 1);
                    }
                    Some(arguments(&sim).to_string())
                } else {
                    None
                };
                files.push((format!("gen{i}.simf"), t, args))
            }
            Err(e) => cx.report.harness_error(json!({"what": e})),
        }
    }
    let mut paths = vec![];
    for (name, text, args) in &files {
        let p = dir.join(name);
        let _ = std::fs::write(&p, text);
        if let Some(a) = args {
            let _ = std::fs::write(dir.join(format!("{name}.args")), a);
        }
        paths.push(p.to_string_lossy().to_string());
    }
    // (a) repeatedly in this process
    let mut local: Vec<[String; 2]> = vec![];
    for (name, text, args) in &files {
        let mut fps = [String::new(), String::new()];
        for (di, debug) in [false, true].iter().enumerate() {
            let first = fingerprint(text, *debug, args.as_deref());
            for _ in 0..(if cx.thorough { 20 } else { 8 }) {
                cx.report.evaluations += 1;
                let again = fingerprint(text, *debug, args.as_deref());
                if again != first {
                    cx.report.violation(json!({"kind": "in-process", "what": format!("{name} (debug = {debug}): two compilations in one process differ"),
                        "program": text, "signature": format!("det-inproc:{:016x}", fnv64(text.as_bytes()))}));
                    break;
                }
            }
            fps[di] = first;
        }
        // one parsed template instantiated again and again (debug off / on alternating) must give
        // the bytes of a fresh compilation every time
        let sim_args = {
            use simfony::parse::ParseFromStr;
            args.as_deref().and_then(|a| simfony::Arguments::parse_from_str(a).ok()).unwrap_or_default()
        };
        if let Outcome::Ok(tpl) = new_template(text) {
            for round in 0..6 {
                let debug = round % 2 == 1;
                cx.report.evaluations += 1;
                let got = match instantiate(&tpl, &sim_args, debug) {
                    Outcome::Ok(c) => match commit(&c) {
                        Outcome::Ok(info) => format!("OK {} {}", hex(&info.bytes), hex(&info.cmr)),
                        _ => "PANIC".to_string(),
                    },
                    Outcome::Err(_) => "ERR".to_string(),
                    Outcome::Panic(_) => "PANIC".to_string(),
                };
                let want = &fps[debug as usize];
                let same = if want.starts_with("OK ") { want.starts_with(&got) } else { *want == got };
                if !same {
                    cx.report.violation(json!({"kind": "re-instantiate", "what": format!("{name}: instantiation #{} of one template (debug = {debug}) differs from a fresh compilation", round + 1),
                        "program": text, "signature": format!("det-template:{:016x}", fnv64(text.as_bytes()))}));
                    break;
                }
                cx.report.count("template_reinstantiations", 1);
            }
        }
        local.push(fps);
    }
    // (b) in separately started processes (each has its own hash seeds)
    for k in 0..n_procs {
        if cx.out_of_time() {
            break;
        }
        let out = Command::new(&bin).arg("c19-child").args(&paths).stdin(Stdio::null()).output();
        let Ok(out) = out else {
            cx.report.harness_error(json!({"what": "could not start child process"}));
            break;
        };
        let stdout = String::from_utf8_lossy(&out.stdout).to_string();
        let mut seen = 0;
        for line in stdout.lines() {
            let Some(rest) = line.strip_prefix("FP ") else { continue };
            let mut it = rest.splitn(3, ' ');
            let (f, d, fp) = (it.next().unwrap_or(""), it.next().unwrap_or(""), it.next().unwrap_or(""));
            let Some(idx) = paths.iter().position(|p| p == f) else { continue };
            let di = if d == "true" { 1 } else { 0 };
            seen += 1;
            cx.report.evaluations += 1;
            if local[idx][di].replace('\n', "\\n") != fp {
                cx.report.violation(json!({"kind": "cross-process", "what": format!("{} (debug = {d}): process {k} compiles to something else than this process", files[idx].0),
                    "program": files[idx].1, "here": local[idx][di].chars().take(300).collect::<String>(), "there": fp.chars().take(300).collect::<String>(),
                    "signature": format!("det-proc:{:016x}", fnv64(files[idx].1.as_bytes()))}));
            } else {
                cx.report.count("cross_process_agreements", 1);
            }
        }
        if seen != 2 * files.len() {
            cx.report.harness_error(json!({"what": format!("child printed {seen} fingerprints for {} files: {}", files.len(), String::from_utf8_lossy(&out.stderr).chars().take(300).collect::<String>())}));
        }
    }
    // (c) the command line tool
    match simc {
        None => cx.report.harness_error(json!({"what": "VERIF_SIMC not set"})),
        Some(simc) => {
            for (idx, (name, text, args)) in files.iter().enumerate() {
                for (di, debug) in [false, true].iter().enumerate() {
                    if cx.out_of_time() {
                        break;
                    }
                    let mut c = Command::new(&simc);
                    c.arg(&paths[idx]);
                    if *debug {
                        c.arg("--debug");
                    }
                    let Ok(out) = c.stdin(Stdio::null()).output() else {
                        cx.report.harness_error(json!({"what": "could not start simc"}));
                        return;
                    };
                    cx.report.evaluations += 1;
                    let stdout = String::from_utf8_lossy(&out.stdout).to_string();
                    let stderr = String::from_utf8_lossy(&out.stderr).to_string();
                    // simc takes no arguments: compare with the library called without any
                    let without_args;
                    let fp = if args.is_some() {
                        without_args = fingerprint(text, *debug, None);
                        &without_args
                    } else {
                        &local[idx][di]
                    };
                    let sig = format!("simc:{:016x}:{debug}", fnv64(text.as_bytes()));
                    let problem: Option<String> = if let Some(rest) = fp.strip_prefix("OK ") {
                        let bytes_hex = rest.split(' ').next().unwrap_or("");
                        let bytes: Vec<u8> = (0..bytes_hex.len() / 2)
                            .map(|i| u8::from_str_radix(&bytes_hex[2 * i..2 * i + 2], 16).unwrap_or(0))
                            .collect();
                        let want = format!("Program:\n{}\n", base64(&bytes));
                        if out.status.code() != Some(0) {
                            Some(format!("the library compiles the program but simc exits with {:?}: {}", out.status, stderr.chars().take(200).collect::<String>()))
                        } else if stdout != want {
                            Some(format!("simc prints `{}`, the library's commit encoding is `{}`", stdout.chars().take(120).collect::<String>(), want.chars().take(120).collect::<String>()))
                        } else {
                            None
                        }
                    } else if out.status.code() == Some(0) {
                        Some("the library rejects the program but simc exits with 0".to_string())
                    } else if out.status.code().is_none() {
                        Some(format!("simc died from a signal: {:?}", out.status))
                    } else if stderr.trim().is_empty() {
                        Some("simc exits non-zero without a message".to_string())
                    } else if out.status.code() == Some(101) {
                        Some(format!("simc panicked: {}", stderr.chars().take(200).collect::<String>()))
                    } else {
                        None
                    };
                    match problem {
                        None => {
                            cx.report.count(if fp.starts_with("OK ") { "simc_agreements_ok" } else { "simc_agreements_err" }, 1);
                            cx.report.nontrivial.insert(fnv64(format!("{name}{debug}{}", text.len()).as_bytes()) ^ fnv64(text.as_bytes()));
                        }
                        Some(what) => cx.report.violation(json!({"kind": "simc", "what": format!("{name} (debug = {debug}): {what}"), "program": text, "signature": sig})),
                    }
                }
            }
        }
    }
    if cx.report.samples.is_empty() {
        if let Some((name, text, _)) = files.last() {
            cx.report.sample(json!({"file": name, "program": text.chars().take(500).collect::<String>(),
                "fingerprint": local.last().map(|l| l[1].chars().take(160).collect::<String>())}));
        }
    }
    cx.report.count("files", files.len() as u64);
    let _ = std::fs::remove_dir_all(&dir);
}
