//! C04 — the front end accepts exactly the well-typed programs.
//! C03 — accepted programs always compile to well-typed 1 -> 1 Simplicity.

use serde_json::json;
use simfony::parse::ParseFromStr;

use super::c06::{cap_sizes, example_texts};
use super::common::*;
use crate::ast::*;
use crate::bridge::*;
use crate::check_static::{check_program, Verdict};
use crate::gen::{generate, GenCfg};
use crate::mutate_ast::mutate;
use crate::mutate_text::*;
use crate::pipeline::*;
use crate::rng::{fnv64, Rng};
use crate::vals::*;

fn base_program(cx: &mut Ctx, i: u64, rng: &mut Rng) -> Option<Prepared> {
    let mut cfg = GenCfg::default();
    cfg.size_budget = 50 + (i % 4) as isize * 20;
    cfg.max_params = (i % 3) as usize;
    cfg.all_jets = i % 7 == 0;
    let g = generate(rng.clone(), cfg, &cx.golden);
    match prepare(cx, g, rng, &Style::plain()) {
        Ok(p) => Some(p),
        Err(e) => {
            cx.report.harness_error(json!({"what": e}));
            None
        }
    }
}

pub fn run_c04(cx: &mut Ctx) {
    let n: u64 = if cx.thorough { 12_000 } else { 450 };
    let mutants_per_base = if cx.thorough { 60 } else { 40 };
    if cx.shard == 0 && cx.only_case.is_none() {
        // every builtin alias bound to its documented definition, and one near miss per alias
        let table = super::mini::alias_table_prog();
        judge(cx, &table, "builtin alias table", 0);
        for k in 0..BUILTIN_ALIASES.len() {
            let mut q = table.clone();
            if let Some(Item::Func(f)) = q.items.get_mut(k) {
                // the identity function now returns another type than the alias stands for
                let def = builtin_alias(BUILTIN_ALIASES[k]).unwrap_or(Ty::Bool);
                f.ret = Some(if def == Ty::U(8) { Ty::U(16) } else { Ty::U(8) });
            }
            judge(cx, &q, "builtin alias table: result type edited", 0);
        }
    }
    for i in cx.cases(n) {
        if cx.out_of_time() {
            break;
        }
        cx.begin_case(i);
        let mut rng = cx.rng(&[i]);
        let Some(p) = base_program(cx, i, &mut rng) else { continue };
        // the generated program itself: well-formed by construction, says M7?
        judge(cx, &p.prog, "generated program", i);
        for _ in 0..mutants_per_base {
            let (q, what) = mutate(&p.prog, &mut rng);
            judge(cx, &q, what, i);
        }
    }
}

fn judge(cx: &mut Ctx, prog: &Program, operator: &str, i: u64) {
    let verdict = check_program(prog, &cx.golden);
    let text = render_plain(prog);
    cx.report.evaluations += 1;
    let accepted = match new_template(&text) {
        Outcome::Ok(_) => true,
        Outcome::Err(_) => false,
        Outcome::Panic(p) => {
            cx.report.inconclusive(json!({"why": format!("front end panicked (C06's subject): {} @ {}", p.message, p.location), "program": text}));
            return;
        }
    };
    let sig = format!("c04:{:016x}", fnv64(text.as_bytes()));
    match (&verdict, accepted) {
        (Verdict::WellFormed, true) => {
            cx.report.count("well_formed_accepted", 1);
            cx.report.nontrivial.insert(fnv64(text.as_bytes()));
        }
        (Verdict::IllFormed(rule), false) => {
            cx.report.count("ill_formed_rejected", 1);
            cx.report.note("rules_exercised", rule);
            cx.report.count(&format!("rule: {rule}"), 1);
            cx.report.nontrivial.insert(fnv64(text.as_bytes()));
            if cx.report.samples.len() < 3 && i % 5 == 2 {
                cx.report.sample(json!({"operator": operator, "rule_broken": rule, "program": text.chars().take(700).collect::<String>()}));
            }
        }
        (Verdict::Unspecified(why), _) => {
            cx.report.count("unspecified_not_judged", 1);
            cx.report.note("unspecified_cases", why);
        }
        (Verdict::WellFormed, false) => {
            let err = match new_template(&text) {
                Outcome::Err(e) => last_line(&e),
                _ => String::new(),
            };
            cx.report.violation(json!({"kind": "rejected-well-formed", "what": format!("a program that is well-formed under the documented rules is rejected: {err} (mutation: {operator})"),
                "program": text, "signature": sig}));
        }
        (Verdict::IllFormed(rule), true) => {
            cx.report.violation(json!({"kind": "accepted-ill-formed", "what": format!("a program that breaks the rule `{rule}` is accepted (mutation: {operator})"),
                "program": text, "signature": sig}));
        }
    }
    cx.report.note("operators", operator);
}

// ------------------------------------------------------------------------------------------
// C03

pub fn run_c03(cx: &mut Ctx) {
    let n: u64 = if cx.thorough { 15_000 } else { 500 };
    let examples = example_texts();
    for i in cx.cases(n) {
        if cx.out_of_time() {
            break;
        }
        cx.begin_case(i);
        let mut rng = cx.rng(&[i]);
        let Some(p) = base_program(cx, i, &mut rng) else { continue };
        totality(cx, p.text(), "generated");
        // near-miss edits that happen to be accepted (including the ones the book leaves open)
        for _ in 0..(if cx.thorough { 40 } else { 30 }) {
            let (q, _) = mutate(&p.prog, &mut rng);
            totality(cx, &render_plain(&q), "ast-mutant");
        }
        // printer output
        if let Outcome::Ok(tree) = call(|| simfony::parse::Program::parse_from_str(p.text())) {
            if let Ok(printed) = guard(|| tree.to_string()) {
                totality(cx, &printed, "printed");
            }
        }
        // token-level mutants of the program and of a shipped example
        for _ in 0..10 {
            if nesting_depth(p.text()) <= MAX_DEPTH {
                totality(cx, &cap_sizes(&mutate_text(p.text(), &mut rng)), "token-mutant");
            }
        }
        let progs: Vec<&(String, String)> = examples.iter().filter(|(n, _)| n.ends_with(".simf")).collect();
        let (_, ex) = rng.pick(&progs);
        for _ in 0..6 {
            totality(cx, &cap_sizes(&mutate_text(ex, &mut rng)), "example-mutant");
        }
    }
    // corpus regression inputs
    if cx.shard == 0 && cx.only_case.is_none() {
        let root = std::env::var("VERIF_ROOT").unwrap_or_else(|_| "/verif".into());
        if let Ok(d) = std::fs::read_dir(format!("{root}/corpus")) {
            let mut paths: Vec<_> = d.filter_map(|e| e.ok()).map(|e| e.path()).collect();
            paths.sort();
            for pth in paths {
                let name = pth.file_name().map(|n| n.to_string_lossy().to_string()).unwrap_or_default();
                if name.starts_with("c03_") {
                    if let Ok(t) = std::fs::read_to_string(&pth) {
                        totality(cx, &t, "corpus");
                    }
                }
            }
        }
    }
}

/// Whatever the front end accepts must instantiate, commit, and have type 1 -> 1.
fn totality(cx: &mut Ctx, text: &str, family: &str) {
    let tpl = match new_template(text) {
        Outcome::Ok(t) => t,
        Outcome::Err(_) => {
            cx.report.count(&format!("rejected_{family}"), 1);
            return;
        }
        Outcome::Panic(_) => {
            cx.report.count("front_end_panics_left_to_c06", 1);
            return;
        }
    };
    cx.report.evaluations += 1;
    cx.report.count(&format!("accepted_{family}"), 1);
    let mut rng = Rng::new(fnv64(text.as_bytes()));
    let args: Vec<(String, simfony::Value)> = tpl
        .parameters()
        .iter()
        .map(|(n, ty)| {
            let hty = from_sim_ty(ty);
            (n.to_string(), to_sim_val(&random_val(&hty, &mut rng), &hty))
        })
        .collect();
    let sig = format!("c03:{:016x}", fnv64(text.as_bytes()));
    for debug in [false, true] {
        match instantiate(&tpl, &arguments(&args), debug) {
            Outcome::Ok(c) => match commit(&c) {
                Outcome::Ok(info) if info.one_to_one => {
                    if !debug {
                        cx.report.nontrivial.insert(fnv64(text.as_bytes()));
                    }
                }
                Outcome::Ok(_) => {
                    cx.report.violation(json!({"kind": "arrow", "what": "commit() is not of type 1 -> 1", "program": text, "signature": sig}));
                    return;
                }
                o => {
                    cx.report.violation(json!({"kind": "commit", "what": format!("commit() of an accepted program: {}", o.map(|_| ()).brief()), "program": text, "signature": sig}));
                    return;
                }
            },
            o => {
                cx.report.violation(json!({"kind": "instantiate", "what": format!("the front end accepts the program but instantiate (debug = {debug}) says: {}", o.map(|_| ()).brief()),
                    "program": text, "family": family, "signature": sig}));
                return;
            }
        }
    }
    if cx.report.samples.len() < 2 && family == "ast-mutant" {
        cx.report.sample(json!({"family": family, "program": text.chars().take(600).collect::<String>()}));
    }
}
