//! C11 — integer literals denote their mathematical value.

use serde_json::json;
use simfony::value::ValueConstructible;
use simfony::Value;

use super::common::*;
use super::exec::*;
use super::mini::*;
use crate::ast::*;
use crate::bridge::*;
use crate::interp::parse_int_literal;
use crate::rng::{fnv64, Rng};
use crate::u256::U256;
use crate::vals::*;

/// Underscore placements (G3 literal edge forms).
fn underscore_variants(digits: &str, rng: &mut Rng) -> Vec<String> {
    let mut v = vec![digits.to_string()];
    v.push(format!("_{digits}"));
    v.push(format!("{digits}_"));
    v.push(format!("{digits}__"));
    if digits.len() >= 2 {
        let k = 1 + rng.below(digits.len() - 1);
        v.push(format!("{}_{}", &digits[..k], &digits[k..]));
        v.push(format!("{}__{}", &digits[..k], &digits[k..]));
        v.push(digits.chars().map(|c| c.to_string()).collect::<Vec<_>>().join("_"));
    }
    v
}

fn candidates(n: u16, rng: &mut Rng, thorough: bool) -> Vec<String> {
    let nb = n as usize;
    let mut vals: Vec<U256> = vec![U256::ZERO, U256::from_u128(1), U256::max_of(nb)];
    if nb < 256 {
        vals.push(U256::pow2(nb)); // 2^N: does not fit
        vals.push(U256::pow2(nb).wrapping_add(&U256::from_u128(1)).0);
    }
    if nb >= 2 {
        vals.push(U256::pow2(nb - 1));
        vals.push(U256::max_of(nb).wrapping_sub(&U256::from_u128(1)).0);
    }
    let mut p10 = U256::from_u128(1);
    for _ in 0..78 {
        vals.push(p10);
        vals.push(p10.wrapping_sub(&U256::from_u128(1)).0);
        vals.push(p10.wrapping_add(&U256::from_u128(1)).0);
        // p10 *= 10
        let mut acc = U256::ZERO;
        let mut overflow = false;
        for _ in 0..10 {
            let (s, c) = acc.wrapping_add(&p10);
            acc = s;
            overflow |= c;
        }
        if overflow {
            break;
        }
        p10 = acc;
    }
    for _ in 0..(if thorough { 4000 } else { 100 }) {
        vals.push(random_uint(n, rng));
        // wider random values (overflow candidates)
        let wider = *rng.pick(&[8u16, 16, 32, 64, 128, 256]);
        vals.push(random_uint(wider, rng));
    }
    let mut out: Vec<String> = vec![];
    for x in &vals {
        let dec = x.to_dec();
        out.extend(underscore_variants(&dec, rng));
        out.push(format!("0{dec}"));
        out.push(format!("000{dec}"));
        out.push(format!("{}{dec}", "0".repeat(80)));
        // leading zeros mixed with separators
        for lead in ["0_", "0_0", "00_", "_0_0", "0__00_"] {
            out.push(format!("{lead}{dec}"));
        }
        for u in underscore_variants(&format!("00{dec}"), rng) {
            out.push(u);
        }
        // binary: exactly N digits, and off-by-one lengths
        if x.fits(nb) {
            let b = x.to_bin(nb);
            for u in underscore_variants(&b, rng) {
                out.push(format!("0b{u}"));
            }
            out.push(format!("0b0{b}"));
            if nb > 1 {
                out.push(format!("0b{}", &b[1..]));
            }
            if nb >= 4 {
                let h = x.to_hex(nb);
                for u in underscore_variants(&h, rng) {
                    out.push(format!("0x{u}"));
                }
                out.push(format!("0x{}", h.to_uppercase()));
                out.push(format!("0x0{h}"));
                out.push(format!("0x00{h}"));
                out.push(format!("0x{}", &h[1..]));
            }
        } else {
            let bl = x.bit_len();
            if bl <= 256 {
                out.push(format!("0b{}", x.to_bin(bl)));
                let hl = (bl + 3) / 4 * 4;
                if hl <= 256 {
                    out.push(format!("0x{}", x.to_hex(hl)));
                }
            }
        }
    }
    // digit-free and malformed forms
    for s in ["_", "__", "0x_", "0b_", "0x__", "0b__", "0x", "0b", "0b2", "0xg", "00", "0_", "_0", "1_", "0b_1", "0x_f", "0X10", "0B1"] {
        out.push(s.to_string());
    }
    // very long digit runs
    out.push("9".repeat(300));
    out.push(format!("0x{}", "f".repeat(300)));
    out.push(format!("0b{}", "1".repeat(300)));
    out.push("1".repeat(78));
    out.push("1".repeat(79));
    out.sort();
    out.dedup();
    out
}

fn constructor_value(n: u16, x: &U256) -> Value {
    let lo = x.low_u128();
    match n {
        1 => Value::u1(lo as u8),
        2 => Value::u2(lo as u8),
        4 => Value::u4(lo as u8),
        8 => Value::u8(lo as u8),
        16 => Value::u16(lo as u16),
        32 => Value::u32(lo as u32),
        64 => Value::u64(lo as u64),
        128 => Value::u128(lo),
        256 => Value::u256(simfony::num::U256::from_byte_array(x.0)),
        _ => unreachable!(),
    }
}

pub fn run(cx: &mut Ctx) {
    let mut case = 0u64;
    for (wi, n) in WIDTHS.iter().enumerate() {
        let mut rng = cx.rng(&[wi as u64]);
        let cands = candidates(*n, &mut rng, cx.thorough);
        for (k, lit) in cands.iter().enumerate() {
            case += 1;
            if k % cx.nshards != cx.shard {
                continue;
            }
            if let Some(c) = cx.only_case {
                if c != case {
                    continue;
                }
            }
            if cx.out_of_time() {
                break;
            }
            cx.begin_case(case);
            one_literal(cx, *n, lit, k);
        }
        // run-time comparison against a witness built with the Rust constructors
        if wi % cx.nshards == cx.shard % WIDTHS.len() || cx.nshards == 1 {
            runtime_compare(cx, *n, &mut rng);
        }
    }
    byte_strings(cx);
}

fn one_literal(cx: &mut Ctx, n: u16, lit: &str, k: usize) {
    cx.report.evaluations += 1;
    let ty = Ty::U(n);
    let oracle = parse_int_literal(lit, n);
    let sig = format!("lit:u{n}:{lit}");
    // (a) acceptance in a program
    let text = format!("fn main() {{\n    let x: u{n} = {lit};\n}}\n");
    let acc = match build(&text, &simfony::Arguments::default(), false) {
        Ok(_) => Outcome::Ok(()),
        Err(BuildFail::Rejected(e)) | Err(BuildFail::Backend(e)) => Outcome::Err(e),
        Err(BuildFail::Panic(p)) => Outcome::Panic(p),
    };
    let ok = match (&acc, &oracle) {
        (Outcome::Ok(()), Some(_)) | (Outcome::Err(_), None) => true,
        _ => false,
    };
    if !ok {
        cx.report.violation(json!({"kind": "literal-acceptance", "what": format!("`let x: u{n} = {lit};` -> {}; the literal denotes {}",
            acc.brief(), oracle.map(|x| x.to_dec()).unwrap_or("nothing (must be rejected)".into())), "program": text, "signature": sig}));
        return;
    }
    // (b) value parsing against the Rust constructors; a text that is no literal must be rejected
    // (the string parsers consume their whole input since the fix recorded as F11)
    let sty = to_sim_ty(&ty);
    let parsed = call(|| Value::parse_from_str(lit, &sty));
    let ok = match (&parsed, &oracle) {
        (Outcome::Ok(v), Some(x)) => *v == constructor_value(n, x),
        (Outcome::Err(_), None) => true,
        _ => false,
    };
    if !ok {
        cx.report.violation(json!({"kind": "literal-value", "what": format!("Value::parse_from_str(`{lit}`, u{n}) -> {}; the literal denotes {}",
            parsed.map(|v| v.to_string()).brief(), oracle.map(|x| x.to_dec()).unwrap_or("nothing".into())), "signature": sig}));
        return;
    }
    if let Some(x) = &oracle {
        // (e) the printed form parses back
        let v = constructor_value(n, x);
        let printed = v.to_string();
        match call(|| Value::parse_from_str(&printed, &sty)) {
            Outcome::Ok(v2) if v2 == v => {}
            o => {
                cx.report.violation(json!({"kind": "literal-print", "what": format!("u{n} value {} prints as `{printed}`, which parses as {}",
                    x.to_dec(), o.map(|v| v.to_string()).brief()), "signature": format!("litprint:u{n}:{printed}")}));
                return;
            }
        }
        if parse_int_literal(&printed, n) != Some(*x) {
            cx.report.violation(json!({"kind": "literal-print", "what": format!("u{n} value {} prints as `{printed}`, which does not denote it", x.to_dec()),
                "signature": format!("litprint:u{n}:{printed}")}));
            return;
        }
        cx.report.count("accepted_literals", 1);
    } else {
        cx.report.count("rejected_literals", 1);
    }
    cx.report.nontrivial.insert(fnv64(sig.as_bytes()));
    if k % 97 == 0 {
        cx.report.sample(json!({"width": n, "literal": lit, "denotes": oracle.map(|x| x.to_dec())}));
    }
}

/// `assert!(eq_N(LIT, witness::W))` on the real machine, W built with the Rust constructors.
fn runtime_compare(cx: &mut Ctx, n: u16, rng: &mut Rng) {
    let ty = Ty::U(n);
    let count = if cx.thorough { 40 } else { 8 };
    for i in 0..count {
        let x = match i {
            0 => U256::ZERO,
            1 => U256::max_of(n as usize),
            _ => random_uint(n, rng),
        };
        let style = match i % 3 {
            0 => IntStyle::Dec,
            1 => IntStyle::Bin,
            _ => IntStyle::Hex,
        };
        if style == IntStyle::Bin && n > 64 {
            continue;
        }
        let lit = render_int(n, &x, style);
        let mut stmts = vec![let_("x", ty.clone(), Expr::Int(lit.clone()))];
        let leaf_ws = {
            let mut g = prober(cx, true);
            g.probe(&Expr::var("x"), &ty, &mut stmts, 0);
            g.probe_leaf_witnesses.clone()
        };
        let prog = Program {
            items: vec![main_fn(stmts)],
            holes: vec![],
        };
        let p = match prepared_from(cx, prog, leaf_ws.clone(), vec![], WMap::new(), WMap::new(), &Style::plain()) {
            Ok(p) => p,
            Err(e) => {
                cx.report.harness_error(json!({"what": e}));
                return;
            }
        };
        let Some(built) = build_or_report(cx, &p, false, true) else { return };
        let mut leaves = vec![];
        probe_leaves(&Val::U(n, x), &ty, &mut leaves).unwrap();
        // right value: must finish; a neighbouring value: must panic
        for wrong in [false, true] {
            let mut w = WMap::new();
            for (j, ((name, _), v)) in leaf_ws.iter().zip(&leaves).enumerate() {
                let v = if wrong && j == leaf_ws.len() - 1 {
                    match v {
                        Val::U(b, y) => Val::U(*b, if *y == U256::ZERO { U256::from_u128(1) } else { y.wrapping_sub(&U256::from_u128(1)).0 }),
                        other => other.clone(),
                    }
                } else {
                    v.clone()
                };
                w.insert(name.clone(), v);
            }
            let ex = execute(cx, &p, &built, &w, false);
            if !record(cx, &ex.judgement, &p, &w, false, "litrun") {
                continue;
            }
            let finished = matches!(ex.judgement, Judgement::Agree { finished: true, .. });
            if finished == wrong {
                cx.report.violation(json!({"kind": "literal-runtime", "what": format!("`{lit}` at u{n} compared at run time with {} constructor value: finished = {finished}",
                    if wrong { "a different" } else { "the same" }), "case": case_json(&p, &w, false), "signature": format!("litrun:u{n}:{lit}")}));
            } else {
                cx.report.count("runtime_comparisons", 1);
            }
        }
    }
}

/// Hex literals at `[u8; n]` denote their bytes in order.
fn byte_strings(cx: &mut Ctx) {
    let mut rng = cx.rng(&[777]);
    for n in 0..=40usize {
        if n % cx.nshards != cx.shard {
            continue;
        }
        let bytes = rng.bytes(n);
        let hexs: String = bytes.iter().map(|b| format!("{b:02x}")).collect();
        let ty = Ty::arr(Ty::U(8), n);
        let sty = to_sim_ty(&ty);
        for (lit, should) in [
            (format!("0x{hexs}"), n > 0),
            (format!("0x{hexs}00"), false),
            (format!("0x{hexs}0"), false),
            (format!("0x_{}", hexs.chars().map(|c| c.to_string()).collect::<Vec<_>>().join("_")), n > 0),
        ] {
            if n == 0 && lit == "0x_" {
                // zero bytes written with zero digits: the property does not say; not judged
                continue;
            }
            cx.report.evaluations += 1;
            let r = call(|| Value::parse_from_str(&lit, &sty));
            let want = Value::byte_array(bytes.iter().copied());
            let ok = match (&r, should) {
                (Outcome::Ok(v), true) => *v == want,
                (Outcome::Err(_), false) => true,
                // the empty byte string `0x` is not a literal of the grammar; `[]` is the only form
                _ => false,
            };
            if ok {
                cx.report.count("byte_string_literals", 1);
                cx.report.nontrivial.insert(fnv64(format!("bytes:{n}:{lit}").as_bytes()));
            } else {
                cx.report.violation(json!({"kind": "byte-string", "what": format!("`{lit}` at [u8; {n}] -> {} (should be accepted: {should})",
                    r.map(|v| v.to_string()).brief()), "signature": format!("bytes:{n}:{lit}")}));
            }
        }
    }
}
