//! C09 — `for_while` iterates 0, 1, 2, ... and stops at the first Left.

use serde_json::json;

use super::common::*;
use super::exec::*;
use super::mini::*;
use crate::ast::*;
use crate::interp::REvent;
use crate::rng::fnv64;

fn ji(x: u128) -> Expr {
    Expr::Int(x.to_string())
}

/// The loop counter widened to u16 with the documented casts.
fn counter_as_u16(width: u16, stmts: &mut Vec<Stmt>) -> Expr {
    let pair = |t: Ty| Ty::Tuple(vec![t.clone(), t]);
    match width {
        1 => Expr::jet("left_pad_low_1_16", vec![Expr::var("i")]),
        2 => {
            stmts.push(let_("i4", Ty::U(4), Expr::call(CallName::Cast(pair(Ty::U(2))), vec![Expr::Tuple(vec![ji(0), Expr::var("i")])])));
            stmts.push(let_("i8", Ty::U(8), Expr::call(CallName::Cast(pair(Ty::U(4))), vec![Expr::Tuple(vec![ji(0), Expr::var("i4")])])));
            Expr::jet("left_pad_low_8_16", vec![Expr::var("i8")])
        }
        4 => {
            stmts.push(let_("i8", Ty::U(8), Expr::call(CallName::Cast(pair(Ty::U(4))), vec![Expr::Tuple(vec![ji(0), Expr::var("i")])])));
            Expr::jet("left_pad_low_8_16", vec![Expr::var("i8")])
        }
        8 => Expr::jet("left_pad_low_8_16", vec![Expr::var("i")]),
        _ => Expr::var("i"),
    }
}

/// ctx = (enabled: bool, exit_at: u16, tag: u32)
fn ctx_ty() -> Ty {
    Ty::Tuple(vec![Ty::Bool, Ty::U(16), Ty::U(32)])
}

/// `fn body(acc: u64, ctx, i: uN) -> Either<u64, u64>`
/// * records the order of the iterations in the accumulator (acc * 31 + i + 1)
/// * checks that ctx arrives unchanged (tag)
/// * kind 2: panics on every iteration after the exit point
fn body_fn(width: u16, kind: usize) -> Func {
    let mut stmts = vec![Stmt::Let(
        Pat::Tuple(vec![Pat::Id("enabled".into()), Pat::Id("exit_at".into()), Pat::Id("tag".into())]),
        ctx_ty(),
        Expr::var("ctx"),
    )];
    stmts.push(assert_(Expr::jet("eq_32", vec![Expr::var("tag"), Expr::Int("0xdeadbeef".into())])));
    let c16 = counter_as_u16(width, &mut stmts);
    stmts.push(let_("c", Ty::U(16), c16));
    if kind == 2 {
        // an iteration after the exit point must never be evaluated
        stmts.push(assert_(Expr::Match(
            Box::new(Expr::var("enabled")),
            Box::new([
                Arm { pat: MatchPat::True, body: Expr::jet("le_16", vec![Expr::var("c"), Expr::var("exit_at")]) },
                Arm { pat: MatchPat::False, body: Expr::Bool(true) },
            ]),
        )));
    }
    stmts.push(Stmt::Let(
        Pat::Tuple(vec![Pat::Ignore, Pat::Id("lo".into())]),
        Ty::Tuple(vec![Ty::U(64), Ty::U(64)]),
        Expr::call(CallName::Cast(Ty::U(128)), vec![Expr::jet("multiply_64", vec![Expr::var("acc"), ji(31)])]),
    ));
    stmts.push(Stmt::Let(
        Pat::Tuple(vec![Pat::Ignore, Pat::Id("s".into())]),
        Ty::Tuple(vec![Ty::Bool, Ty::U(64)]),
        Expr::jet("add_64", vec![Expr::var("lo"), Expr::jet("left_pad_low_16_64", vec![Expr::var("c")])]),
    ));
    stmts.push(Stmt::Let(
        Pat::Tuple(vec![Pat::Ignore, Pat::Id("next".into())]),
        Ty::Tuple(vec![Ty::Bool, Ty::U(64)]),
        Expr::jet("increment_64", vec![Expr::var("s")]),
    ));
    let hit = Expr::Match(
        Box::new(Expr::var("enabled")),
        Box::new([
            Arm { pat: MatchPat::True, body: Expr::jet("eq_16", vec![Expr::var("c"), Expr::var("exit_at")]) },
            Arm { pat: MatchPat::False, body: Expr::Bool(false) },
        ]),
    );
    let last = Expr::Match(
        Box::new(hit),
        Box::new([
            Arm { pat: MatchPat::True, body: Expr::Left(Box::new(Expr::var("next"))) },
            Arm { pat: MatchPat::False, body: Expr::Right(Box::new(Expr::var("next"))) },
        ]),
    );
    Func {
        name: "body".into(),
        params: vec![("acc".into(), Ty::U(64)), ("ctx".into(), ctx_ty()), ("i".into(), Ty::U(width))],
        ret: Some(Ty::either(Ty::U(64), Ty::U(64))),
        body: Expr::block(stmts, Some(last)),
    }
}

pub fn run(cx: &mut Ctx) {
    let widths: Vec<u16> = vec![1, 2, 4, 8, 16];
    let mut case = 0u64;
    for width in widths {
        for kind in 0..3usize {
            for debug in [false, true] {
                case += 1;
                if let Some(c) = cx.only_case {
                    if c != case {
                        continue;
                    }
                }
                if width == 16 && debug {
                    continue;
                }
                cx.begin_case(case);
                one_loop(cx, width, kind, debug, case);
            }
        }
    }
}

fn one_loop(cx: &mut Ctx, width: u16, kind: usize, debug: bool, case: u64) {
    // main: run the loop with (acc0, ctx) from witnesses, make the result observable through a jet
    let res_ty = Ty::either(Ty::U(64), Ty::U(64));
    let stmts = vec![
        let_("ctx", ctx_ty(), Expr::Witness("CTX".into())),
        let_(
            "r",
            res_ty.clone(),
            Expr::call(CallName::ForWhile("body".into()), vec![Expr::Witness("ACC".into()), Expr::var("ctx")]),
        ),
        let_(
            "seen",
            Ty::U(64),
            Expr::Match(
                Box::new(Expr::var("r")),
                Box::new([
                    Arm { pat: MatchPat::Left("b".into(), Ty::U(64)), body: Expr::jet("xor_64", vec![Expr::var("b"), ji(1)]) },
                    Arm { pat: MatchPat::Right("a".into(), Ty::U(64)), body: Expr::jet("xor_64", vec![Expr::var("a"), ji(2)]) },
                ]),
            ),
        ),
        assert_(Expr::jet("eq_64", vec![Expr::var("seen"), Expr::Witness("EXPECT".into())])),
    ];
    let prog = Program {
        items: vec![Item::Func(body_fn(width, kind)), main_fn(stmts)],
        holes: vec![],
    };
    let witnesses = vec![
        ("CTX".to_string(), ctx_ty()),
        ("ACC".to_string(), Ty::U(64)),
        ("EXPECT".to_string(), Ty::U(64)),
    ];
    let p = match prepared_from(cx, prog, witnesses, vec![], WMap::new(), WMap::new(), &Style::plain()) {
        Ok(p) => p,
        Err(e) => {
            cx.report.harness_error(json!({"what": e}));
            return;
        }
    };
    let Some(built) = build_or_report(cx, &p, debug, true) else { return };
    let n: u128 = 1 << width;
    // exit iterations: all of them for small widths, selected ones for wide counters; and "never"
    let mut exits: Vec<Option<u128>> = vec![None];
    if width <= 8 {
        exits.extend((0..n).map(Some));
    } else {
        let mut rng = cx.rng(&[case]);
        if cx.thorough {
            for j in [0u128, 1, 2, 255, 256, 257, 32767, 32768, 65534, 65535] {
                exits.push(Some(j));
            }
            for _ in 0..6 {
                exits.push(Some(rng.below(65536) as u128));
            }
        } else {
            // the quick tier runs the 16-bit counter only up to early exits (each costs at most
            // a few thousand body evaluations on a correct tree)
            exits.clear();
            for j in [0u128, 1, 2, 3, 255, 256, 257, 511, 512, 513] {
                exits.push(Some(j));
            }
            for _ in 0..4 {
                exits.push(Some(rng.below(3000) as u128));
            }
            // and one long run per loop body: an exit in the upper half of the counter range,
            // or no exit at all (the top counter bit and the final carry are only reached there)
            exits.push(match kind {
                0 => Some(32768),
                1 => Some(32769 + rng.below(32766) as u128),
                _ => None,
            });
        }
    }
    for (ei, exit) in exits.iter().enumerate() {
        if ei % cx.nshards != cx.shard {
            continue;
        }
        if cx.out_of_time() {
            return;
        }
        let acc0: u64 = 7 + ei as u64;
        // closed form, independent of the interpreter's loop
        let mut acc = acc0;
        let mut result_left = false;
        let last = exit.unwrap_or(n - 1);
        let mut iters = 0u64;
        for i in 0..=last {
            acc = acc.wrapping_mul(31).wrapping_add(i as u64).wrapping_add(1);
            iters += 1;
            if Some(i) == *exit {
                result_left = true;
            }
        }
        let expect = acc ^ if result_left { 1 } else { 2 };
        for wrong_tag in [false, true] {
            if wrong_tag && ei % 7 != 0 {
                continue;
            }
            let mut w = WMap::new();
            w.insert(
                "CTX".into(),
                Val::Tuple(vec![
                    Val::Bool(exit.is_some()),
                    Val::u(16, exit.unwrap_or(0)),
                    Val::u(32, if wrong_tag { 0xdeadbeee } else { 0xdeadbeef }),
                ]),
            );
            w.insert("ACC".into(), Val::u(64, acc0 as u128));
            w.insert("EXPECT".into(), Val::u(64, expect as u128));
            let ex = execute(cx, &p, &built, &w, debug);
            if !record(cx, &ex.judgement, &p, &w, debug, &format!("loop:{width}:{kind}")) {
                continue;
            }
            let finished = matches!(ex.judgement, Judgement::Agree { finished: true, .. });
            let body_calls = ex
                .reference
                .events
                .iter()
                .filter(|e| matches!(e, REvent::Jet { name, .. } if name == "multiply_64"))
                .count() as u64;
            let want_finished = !wrong_tag;
            let want_calls = if wrong_tag { 0 } else { iters };
            if finished != want_finished || body_calls != want_calls {
                cx.report.violation(json!({"kind": "loop", "what": format!("u{width} loop, exit at {exit:?}: closed form says finishes = {want_finished} after {want_calls} body evaluations; observed finishes = {finished}, {body_calls} evaluations"),
                    "case": case_json(&p, &w, debug), "signature": format!("loop-cf:{width}:{kind}:{exit:?}")}));
                continue;
            }
            cx.report.count("loops_run", 1);
            cx.report.count("iterations_observed", body_calls);
            cx.report.note("widths", &width.to_string());
            cx.report
                .nontrivial
                .insert(fnv64(format!("{width}|{kind}|{debug}|{exit:?}|{wrong_tag}").as_bytes()));
        }
    }
    if cx.report.samples.len() < 1 && width == 2 && kind == 2 && !debug {
        cx.report.sample(json!({"program": p.text()}));
    }
}
