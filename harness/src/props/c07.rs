//! C07 — types, values and casts follow the documented structural layout.

use serde_json::json;
use simfony::types::StructuralType;
use simfony::value::StructuralValue;
use simfony::Value;

use super::common::*;
use super::exec::*;
use super::mini::*;
use crate::ast::*;
use crate::bridge::*;
use crate::layout::*;
use crate::rng::{fnv64, Rng};
use crate::vals::*;

const ARRAY_SIZES: &[usize] = &[0, 1, 2, 3, 4, 5, 6, 7, 8, 9, 10, 11, 12, 13, 14, 15, 16, 17, 31, 32, 33, 64, 255, 256, 1000];
const LIST_BOUNDS: &[usize] = &[2, 4, 8, 16, 32, 64, 128, 256, 512];

fn leaf_types() -> Vec<Ty> {
    let mut v = vec![Ty::Bool, Ty::unit()];
    v.extend(WIDTHS.iter().map(|w| Ty::U(*w)));
    v
}

/// Systematic part of the type space: every constructor over every leaf, every array size and
/// list bound of the property's quantifier, plus two more levels of nesting over a small base.
fn systematic_types() -> Vec<Ty> {
    let leaves = leaf_types();
    let mut out = leaves.clone();
    for l in &leaves {
        out.push(Ty::opt(l.clone()));
        out.push(Ty::Tuple(vec![l.clone()]));
        for r in &leaves {
            out.push(Ty::either(l.clone(), r.clone()));
            out.push(Ty::Tuple(vec![l.clone(), r.clone()]));
        }
    }
    let elems = [Ty::U(8), Ty::U(1), Ty::unit(), Ty::Bool, Ty::Tuple(vec![Ty::U(8), Ty::Bool]), Ty::opt(Ty::U(4)), Ty::U(256)];
    for e in &elems {
        for n in ARRAY_SIZES {
            out.push(Ty::arr(e.clone(), *n));
        }
        for b in LIST_BOUNDS {
            out.push(Ty::list(e.clone(), *b));
        }
    }
    for n in 0..=9 {
        out.push(Ty::Tuple((0..n).map(|i| [Ty::U(8), Ty::Bool, Ty::U(16)][i % 3].clone()).collect()));
    }
    // nested containers
    for n in [0usize, 1, 2, 3, 5] {
        for m in [0usize, 1, 3, 4] {
            out.push(Ty::arr(Ty::arr(Ty::U(8), m), n));
            out.push(Ty::arr(Ty::list(Ty::U(2), 4), n));
            out.push(Ty::list(Ty::arr(Ty::U(4), m), 8));
        }
    }
    out.push(Ty::list(Ty::list(Ty::U(8), 4), 4));
    out.push(Ty::opt(Ty::opt(Ty::opt(Ty::Bool))));
    out.push(Ty::either(Ty::either(Ty::U(8), Ty::unit()), Ty::list(Ty::U(8), 2)));
    out
}

pub fn run(cx: &mut Ctx) {
    let sys = systematic_types();
    let n_random: usize = if cx.thorough { 30_000 } else { 8_000 };
    let total = sys.len() + n_random;
    for i in 0..total {
        if i % cx.nshards != cx.shard {
            continue;
        }
        if let Some(c) = cx.only_case {
            if c != i as u64 {
                continue;
            }
        }
        if cx.out_of_time() {
            break;
        }
        cx.begin_case(i as u64);
        let mut rng = cx.rng(&[i as u64]);
        let ty = if i < sys.len() {
            sys[i].clone()
        } else {
            let d = 1 + rng.below(3);
            random_ty(&mut rng, d, 64)
        };
        one_type(cx, &ty, &mut rng, i < sys.len());
    }
    cx.report.count("systematic_types", sys.len() as u64 / cx.nshards as u64);
    casts(cx);
}

fn one_type(cx: &mut Ctx, ty: &Ty, rng: &mut Rng, systematic: bool) {
    cx.report.evaluations += 1;
    let tys = render_ty(ty);
    let sty = to_sim_ty(ty);
    // --- type layout
    let st = match guard(|| StructuralType::from(&sty)) {
        Ok(s) => s,
        Err(p) => {
            cx.report.violation(json!({"kind": "panic", "what": format!("StructuralType::from({tys}) panicked: {} @ {}", p.message, p.location),
                "signature": format!("layout-type:{tys}")}));
            return;
        }
    };
    let observed = tytree_of(st.as_ref());
    let want = layout_type(ty);
    if observed != want {
        cx.report.violation(json!({"kind": "type-layout", "what": format!("type {tys}: simfony's Simplicity type {} differs from the documented layout", st),
            "signature": format!("layout-type:{tys}")}));
        return;
    }
    cx.report.nontrivial.insert(fnv64(format!("T{tys}").as_bytes()));
    match ty {
        Ty::Array(_, n) => cx.report.note("array_sizes", &n.to_string()),
        Ty::List(_, b) => cx.report.note("list_bounds", &b.to_string()),
        _ => {}
    }
    // --- value layout and reconstruction
    let mut values: Vec<Val> = match all_vals(ty, 300) {
        Some(v) => {
            cx.report.count("types_with_all_values", 1);
            v
        }
        None => {
            let mut v = boundary_vals(ty);
            for _ in 0..(if systematic { 6 } else { 3 }) {
                v.push(random_val(ty, rng));
            }
            v
        }
    };
    if let Ty::List(e, b) = ty {
        // every block boundary
        let mut lens = vec![0usize, 1, b - 1];
        let mut j = 2;
        while j < *b {
            lens.extend([j - 1, j, j + 1]);
            j *= 2;
        }
        lens.retain(|l| l < b);
        lens.sort();
        lens.dedup();
        for l in lens {
            values.push(Val::List((0..l).map(|_| random_val(e, rng)).collect(), *b));
        }
    }
    for v in values {
        cx.report.evaluations += 1;
        let vs = render_val_dec(&v);
        let vs_short: String = vs.chars().take(120).collect();
        let sv = to_sim_val(&v, ty);
        let structural = match guard(|| StructuralValue::from(&sv)) {
            Ok(s) => s,
            Err(p) => {
                cx.report.violation(json!({"kind": "panic", "what": format!("StructuralValue::from({vs_short}: {tys}) panicked: {} @ {}", p.message, p.location),
                    "signature": format!("layout-value:{tys}:{:016x}", fnv64(vs.as_bytes()))}));
                continue;
            }
        };
        let sim_value: &simfony::simplicity::Value = structural.as_ref();
        let observed = tree_of(sim_value.as_ref());
        let want_v = layout_value(&v);
        if observed != want_v {
            cx.report.violation(json!({"kind": "value-layout", "what": format!("value {vs_short} of type {tys}: Simplicity value {} differs from the documented layout {}",
                observed.brief(), want_v.brief()), "signature": format!("layout-value:{tys}:{:016x}", fnv64(vs.as_bytes()))}));
            continue;
        }
        if !tree_fits(&want_v, &want) {
            cx.report.harness_error(json!({"what": format!("harness layout of {vs_short} does not inhabit layout of {tys}")}));
            continue;
        }
        match guard(|| Value::reconstruct(&structural, &sty)) {
            Ok(Some(back)) if back == sv => {}
            other => {
                cx.report.violation(json!({"kind": "reconstruct", "what": format!("reconstruct(structural({vs_short}), {tys}) = {:?}", other.map(|o| o.map(|v| v.to_string()))),
                    "signature": format!("reconstruct:{tys}:{:016x}", fnv64(vs.as_bytes()))}));
                continue;
            }
        }
        cx.report.count("values_checked", 1);
        cx.report.nontrivial.insert(fnv64(format!("V{tys}{vs}").as_bytes()));
        if cx.report.samples.len() < 3 && ty.depth() >= 1 {
            cx.report.sample(json!({"type": tys, "value": vs_short, "layout": want_v.brief()}));
        }
    }
}

/// Cast acceptance over ordered pairs of a type pool, and run-time bit preservation.
fn casts(cx: &mut Ctx) {
    let mut rng = cx.rng(&[4242]);
    let mut pool: Vec<Ty> = vec![];
    let base = [
        Ty::Bool,
        Ty::unit(),
        Ty::U(1),
        Ty::U(2),
        Ty::U(4),
        Ty::U(8),
        Ty::U(16),
        Ty::U(32),
        Ty::U(64),
        Ty::U(128),
        Ty::U(256),
    ];
    pool.extend(base.iter().cloned());
    for t in base.iter() {
        for v in cast_variants(t) {
            pool.push(v);
        }
    }
    let mids = [
        Ty::opt(Ty::U(8)),
        Ty::either(Ty::unit(), Ty::unit()),
        Ty::either(Ty::U(8), Ty::U(8)),
        Ty::either(Ty::unit(), Ty::U(8)),
        Ty::Tuple(vec![Ty::U(8), Ty::U(8), Ty::U(8)]),
        Ty::Tuple(vec![Ty::U(8), Ty::U(8), Ty::U(8), Ty::U(8)]),
        Ty::Tuple(vec![Ty::U(8), Ty::U(8), Ty::U(8), Ty::U(8), Ty::U(8)]),
        Ty::arr(Ty::U(8), 3),
        Ty::arr(Ty::U(8), 4),
        Ty::arr(Ty::U(8), 5),
        Ty::arr(Ty::U(1), 8),
        Ty::list(Ty::U(8), 2),
        Ty::list(Ty::U(8), 4),
        Ty::list(Ty::U(8), 8),
        Ty::list(Ty::U(1), 4),
        Ty::arr(Ty::Bool, 2),
        Ty::opt(Ty::Bool),
        Ty::opt(Ty::unit()),
    ];
    for t in mids.iter() {
        pool.push(t.clone());
        for v in cast_variants(t) {
            pool.push(v.clone());
            for v2 in cast_variants(&v).into_iter().take(2) {
                pool.push(v2);
            }
        }
    }
    let extra = if cx.thorough { 120 } else { 60 };
    for _ in 0..extra {
        let t = random_ty(&mut rng, 2, 8);
        pool.push(t.clone());
        for v in cast_variants(&t) {
            pool.push(v);
        }
    }
    pool.sort_by_key(|t| render_ty(t));
    pool.dedup();
    cx.report.count("cast_pool_types", pool.len() as u64 / cx.nshards as u64);
    let mut k = 0usize;
    let mut accepted_pairs: Vec<(Ty, Ty)> = vec![];
    for a in &pool {
        for b in &pool {
            k += 1;
            if k % cx.nshards != cx.shard {
                continue;
            }
            if cx.out_of_time() {
                return;
            }
            let want = layout_type(a) == layout_type(b);
            cx.report.evaluations += 1;
            let text = format!(
                "fn main() {{\n    let x: {} = witness::X;\n    let y: {} = <{}>::into(x);\n}}\n",
                render_ty(a),
                render_ty(b),
                render_ty(a)
            );
            let acc = match build(&text, &simfony::Arguments::default(), false) {
                Ok(_) => Outcome::Ok(()),
                Err(BuildFail::Rejected(e)) | Err(BuildFail::Backend(e)) => Outcome::Err(e),
                Err(BuildFail::Panic(p)) => Outcome::Panic(p),
            };
            let ok = matches!((&acc, want), (Outcome::Ok(()), true) | (Outcome::Err(_), false));
            if !ok {
                cx.report.violation(json!({"kind": "cast-acceptance", "what": format!("cast {} -> {}: layouts equal = {want}, compiler says {}",
                    render_ty(a), render_ty(b), acc.brief()), "program": text, "signature": format!("cast:{}->{}", render_ty(a), render_ty(b))}));
                continue;
            }
            cx.report.count(if want { "casts_accepted" } else { "casts_rejected" }, 1);
            cx.report.nontrivial.insert(fnv64(format!("C{}>{}", render_ty(a), render_ty(b)).as_bytes()));
            if want && a != b {
                accepted_pairs.push((a.clone(), b.clone()));
            }
        }
    }
    // run-time: the bits are unchanged
    rng.shuffle(&mut accepted_pairs);
    let n_exec = if cx.thorough { 400 } else { 120 };
    for (a, b) in accepted_pairs.into_iter().take(n_exec) {
        if cx.out_of_time() {
            return;
        }
        let mut stmts = vec![
            let_("x", a.clone(), Expr::Witness("X".into())),
            let_("y", b.clone(), Expr::call(CallName::Cast(a.clone()), vec![Expr::var("x")])),
        ];
        let mut g = prober(cx, false);
        g.probe(&Expr::var("y"), &b, &mut stmts, 0);
        let holes = g.prog.holes.clone();
        let prog = Program {
            items: vec![main_fn(stmts)],
            holes,
        };
        let x = random_val(&a, &mut rng);
        let mut primary = WMap::new();
        primary.insert("X".into(), x.clone());
        let p = match prepared_from(cx, prog, vec![("X".into(), a.clone())], vec![], primary.clone(), WMap::new(), &Style::plain()) {
            Ok(p) => p,
            Err(e) => {
                cx.report.harness_error(json!({"what": e}));
                continue;
            }
        };
        let Some(built) = build_or_report(cx, &p, false, true) else { continue };
        // the value the cast must produce, read back at B from the documented layout of x
        let expect = from_tree(&layout_value(&x), &b);
        if expect.is_none() {
            cx.report.harness_error(json!({"what": format!("layout of {} does not read back at {}", render_ty(&a), render_ty(&b))}));
            continue;
        }
        let mut ws = vec![primary.clone()];
        for _ in 0..3 {
            let mut w = WMap::new();
            w.insert("X".into(), random_val(&a, &mut rng));
            ws.push(w);
        }
        for (wi, w) in ws.iter().enumerate() {
            let ex = execute(cx, &p, &built, w, false);
            if record(cx, &ex.judgement, &p, w, false, "castrun") {
                let finished = matches!(ex.judgement, Judgement::Agree { finished: true, .. });
                if wi == 0 && !finished {
                    cx.report.violation(json!({"kind": "cast-bits", "what": format!("cast {} -> {} of {}: probing the result against the documented layout fails",
                        render_ty(&a), render_ty(&b), render_val_dec(&x)), "case": case_json(&p, w, false),
                        "signature": format!("castrun:{}->{}", render_ty(&a), render_ty(&b))}));
                } else {
                    cx.report.count("cast_executions", 1);
                }
            }
        }
    }
}
