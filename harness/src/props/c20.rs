//! C20 — compile errors quote the source lines they point at.

use serde_json::json;
use simfony::parse::ParseFromStr;

use super::c06::{cap_sizes, example_texts};
use super::common::*;
use crate::ast::*;
use crate::bridge::*;
use crate::gen::{generate, GenCfg};
use crate::mutate_text::*;
use crate::rng::{fnv64, Rng};

/// Lines of a source text as the error renderer is documented to quote them: split on `\n`,
/// one trailing `\r` removed.
fn source_lines(src: &str) -> Vec<&str> {
    let mut v: Vec<&str> = src.split('\n').collect();
    if src.ends_with('\n') {
        v.pop();
    }
    v.iter().map(|l| l.strip_suffix('\r').unwrap_or(l)).collect()
}

/// Extract (start line, start col, end line, end col) from the derived Debug of a RichError.
fn span_of_debug(dbg: &str) -> Option<(usize, usize, usize, usize)> {
    let i = dbg.find("span: Span")?;
    let s = &dbg[i..];
    let mut nums = vec![];
    let mut cur = String::new();
    for c in s.chars() {
        if c.is_ascii_digit() {
            cur.push(c);
        } else {
            if !cur.is_empty() {
                nums.push(cur.parse::<usize>().ok()?);
                cur.clear();
            }
            if nums.len() == 4 {
                break;
            }
        }
    }
    if nums.len() >= 4 {
        Some((nums[0], nums[1], nums[2], nums[3]))
    } else {
        None
    }
}

/// Check one rendered error message against its source. Err(description) = property violated.
pub fn check_message(src: &str, msg: &str, description: Option<&str>) -> Result<usize, String> {
    let lines = source_lines(src);
    let mlines: Vec<&str> = msg.split('\n').collect();
    if mlines.len() < 2 {
        return Err(format!("message has {} line(s), expected at least the header and the underline", mlines.len()));
    }
    // header: pad + " |"
    let head = mlines[0];
    if !(head.ends_with(" |") && head[..head.len() - 2].chars().all(|c| c == ' ') && head.len() >= 3) {
        return Err(format!("first line `{head}` is not `<pad> |`"));
    }
    let pad = head.len() - 2;
    // quoted lines
    let mut idx = 1;
    let mut quoted = 0;
    let mut prev_n: Option<usize> = None;
    while idx < mlines.len() {
        let l = mlines[idx];
        let num_part: String = l.chars().take_while(|c| *c == ' ' || c.is_ascii_digit()).collect();
        let digits = num_part.trim();
        if digits.is_empty() || !l[num_part.len()..].starts_with("| ") && &l[num_part.len()..] != "|" {
            break;
        }
        if !l[num_part.len()..].starts_with("| ") {
            break;
        }
        let n: usize = digits.parse().map_err(|_| format!("bad line number in `{l}`"))?;
        let text = &l[num_part.len() + 2..];
        if n == 0 || n > lines.len() {
            return Err(format!("quoted line number {n} does not exist in a file of {} lines", lines.len()));
        }
        if let Some(p) = prev_n {
            if n != p + 1 {
                return Err(format!("quoted line numbers are not consecutive: {p} then {n}"));
            }
        }
        // a bare `\r` at the very end of the file is no line terminator for Rust's `lines()`;
        // the property does not say either way, so one trailing `\r` is not judged
        let last_unterminated = n == lines.len() && !src.ends_with('\n');
        let same = lines[n - 1] == text || (last_unterminated && text.strip_suffix('\r') == Some(lines[n - 1]));
        if !same {
            return Err(format!("line {n} is quoted as `{text}` but the source line is `{}`", lines[n - 1]));
        }
        if num_part.len() != pad + 1 {
            return Err(format!("line number column of `{l}` is not {pad} wide"));
        }
        prev_n = Some(n);
        quoted += 1;
        idx += 1;
    }
    // underline + description (the description may itself contain line breaks)
    let tail = mlines[idx..].join("\n");
    let prefix = format!("{} |", " ".repeat(pad));
    if !tail.starts_with(&prefix) {
        return Err(format!("after the quoted lines comes `{}` instead of `<pad> |<underline> <description>`", mlines[idx]));
    }
    let rest = &tail[prefix.len()..];
    let after_spaces = rest.trim_start_matches(' ');
    let after_carets = after_spaces.trim_start_matches('^');
    let desc = after_carets.strip_prefix(' ').unwrap_or(after_carets);
    if let Some(d) = description {
        if desc != d {
            return Err(format!("the message ends with `{desc}` but the error's description is `{d}`"));
        }
    } else if desc.trim().is_empty() {
        return Err("the message ends without a description".into());
    }
    Ok(quoted)
}

pub fn run(cx: &mut Ctx) {
    let n: u64 = if cx.thorough { 300_000 } else { 8_000 };
    let examples = example_texts();
    for i in cx.cases(n) {
        if cx.out_of_time() {
            break;
        }
        cx.begin_case(i);
        let mut rng = cx.rng(&[i]);
        let base: String = if i % 4 == 3 {
            let progs: Vec<&(String, String)> = examples.iter().filter(|(n, _)| n.ends_with(".simf")).collect();
            rng.pick(&progs).1.clone()
        } else {
            let mut cfg = GenCfg::default();
            cfg.size_budget = 40;
            cfg.max_depth = 3;
            cfg.max_params = (i % 2) as usize;
            let g = generate(rng.clone(), cfg, &cx.golden);
            // layout variants: CRLF, tabs, comments with multi-byte characters, no final newline
            let style = if i % 3 == 0 { Style::plain() } else { Style::random(&mut rng) };
            match prepare(cx, g, &mut rng, &style) {
                Ok(p) => {
                    if i % 4 == 1 {
                        // a near-miss edit of the AST: errors of the analysis (type, arity, scope,
                        // signature errors) located at an inner expression, often spanning lines
                        let (q, _) = crate::mutate_ast::mutate(&p.prog, &mut rng);
                        one_text(cx, &render(&q, &style).text, i);
                        if i % 100 == 1 {
                            // the same mutant on ONE very long line: columns beyond 65535
                            let plain = render_plain(&q).replace('\n', " ");
                            if let Some(k) = plain.find('{') {
                                let long = format!("{}{}{}", &plain[..=k], " ".repeat(66_000 + rng.below(3_000)), &plain[k + 1..]);
                                one_text(cx, &long, i);
                                cx.report.count("texts_with_a_line_beyond_65535_columns", 1);
                            }
                        }
                    }
                    p.text().to_string()
                }
                Err(_) => continue,
            }
        };
        let text = if nesting_depth(&base) > MAX_DEPTH { base.clone() } else { cap_sizes(&mutate_text(&base, &mut rng)) };
        one_text(cx, &text, i);
        // the same mutant with CRLF line ends and with a multi-byte comment in front
        if i % 5 == 0 {
            one_text(cx, &text.replace('\n', "\r\n"), i);
            one_text(cx, &format!("/* ✓ 日本 */ {text}"), i);
            one_text(cx, &format!("// é\n\t{}", text.replace("    ", "\t")), i);
        }
    }
}

fn one_text(cx: &mut Ctx, text: &str, i: u64) {
    if text.is_empty() {
        return;
    }
    cx.report.evaluations += 1;
    let sig = format!("errmsg:{:016x}", fnv64(text.as_bytes()));
    // the description and the span of the underlying error, through the public two-stage API
    let (description, span_dbg): (Option<String>, Option<String>) = match guard(|| match simfony::parse::Program::parse_from_str(text) {
        Err(e) => {
            let d = format!("{e:?}");
            (Some(simfony::error::Error::from(e).to_string()), Some(d))
        }
        Ok(p) => match simfony::ast::Program::analyze(&p) {
            Err(e) => {
                let d = format!("{e:?}");
                (Some(simfony::error::Error::from(e).to_string()), Some(d))
            }
            Ok(_) => (None, None),
        },
    }) {
        Ok(x) => x,
        Err(p) => {
            cx.report.violation(json!({"kind": "panic", "what": format!("front end panicked: {} @ {}", p.message, p.location), "text": text, "signature": sig}));
            return;
        }
    };
    let msg = match call(|| simfony::TemplateProgram::new(text)) {
        Outcome::Ok(_) => {
            cx.report.count("accepted_texts", 1);
            if description.is_some() {
                cx.report.harness_error(json!({"what": "TemplateProgram::new accepts a text that parse+analyze reject", "text": text}));
            }
            return;
        }
        Outcome::Err(m) => m,
        Outcome::Panic(p) => {
            cx.report.violation(json!({"kind": "panic", "what": format!("rendering the error panicked: {} @ {}", p.message, p.location), "text": text, "signature": sig}));
            return;
        }
    };
    cx.report.count("rejected_texts", 1);
    // the location lies inside the file
    let n_lines = source_lines(text).len();
    if let Some((sl, sc, el, ec)) = span_dbg.as_deref().and_then(span_of_debug) {
        let bad = if sl == 0 || sc == 0 || el == 0 || ec == 0 {
            Some("a zero line or column".to_string())
        } else if sl > n_lines + 1 {
            Some(format!("start line {sl} lies behind the end of a file of {n_lines} lines"))
        } else if (el, ec) < (sl, sc) {
            Some(format!("the span ends ({el}:{ec}) before it starts ({sl}:{sc})"))
        } else {
            None
        };
        if let Some(b) = bad {
            cx.report.violation(json!({"kind": "span", "what": b, "text": text, "message": msg, "signature": sig}));
            return;
        }
        if sl != el {
            cx.report.count("multi_line_spans", 1);
        }
        if sl == 1 {
            cx.report.count("errors_on_first_line", 1);
        }
        if sl >= n_lines {
            cx.report.count("errors_on_last_line", 1);
        }
    } else {
        cx.report.count("span_not_parsed", 1);
    }
    match check_message(text, &msg, description.as_deref()) {
        Ok(q) => {
            cx.report.count("messages_checked", 1);
            cx.report.count("quoted_lines_checked", q as u64);
            if q == 0 {
                cx.report.count("messages_quoting_no_line", 1);
            }
            if text.contains('\r') {
                cx.report.count("texts_with_cr", 1);
            }
            if text.contains('\t') {
                cx.report.count("texts_with_tab", 1);
            }
            if !text.is_ascii() {
                cx.report.count("texts_non_ascii", 1);
            }
            cx.report.nontrivial.insert(fnv64(text.as_bytes()));
            if cx.report.samples.len() < 3 && q >= 1 && i % 13 == 1 {
                cx.report.sample(json!({"text": text.chars().take(400).collect::<String>(), "message": msg}));
            }
        }
        Err(e) => {
            cx.report.violation(json!({"kind": "message", "what": e, "text": text, "message": msg, "signature": sig}));
        }
    }
}

pub fn _unused(_: &mut Rng) {}
