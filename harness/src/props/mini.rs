//! Helpers to assemble small hand-shaped programs (used by the focused property workloads).

use crate::ast::*;
use crate::gen::{Gen, GenCfg};
use crate::rng::Rng;
use crate::u256::U256;

use super::common::*;

pub fn main_fn(stmts: Vec<Stmt>) -> Item {
    Item::Func(Func {
        name: "main".into(),
        params: vec![],
        ret: None,
        body: Expr::block(stmts, None),
    })
}

pub fn let_(name: &str, ty: Ty, e: Expr) -> Stmt {
    Stmt::Let(Pat::Id(name.to_string()), ty, e)
}

pub fn assert_(e: Expr) -> Stmt {
    Stmt::Expr(Expr::call(CallName::Assert, vec![e]))
}

/// A generator object used only for its probe builder.
pub fn prober<'a>(cx: &'a Ctx, leaves_as_witness: bool) -> Gen<'a> {
    let mut cfg = GenCfg::default();
    cfg.size_budget = 1_000_000;
    let mut g = Gen::new(Rng::new(7), cfg, &cx.golden);
    g.probe_leaves_as_witness = leaves_as_witness;
    g
}

/// The leaf values of `v` in the order in which `Gen::probe` compares them
/// (sum-free types only when the leaves are witnesses).
pub fn probe_leaves(v: &Val, ty: &Ty, out: &mut Vec<Val>) -> Result<(), String> {
    match (v, ty) {
        (Val::U(n, _), Ty::U(m)) if n == m && [1u16, 8, 16, 32, 64, 256].contains(n) => out.push(v.clone()),
        (Val::U(n, x), Ty::U(m)) if n == m => {
            let h = (*n / 2) as usize;
            let bits: Vec<bool> = (0..*n as usize).map(|i| x.bit_msb(*n as usize, i)).collect();
            let hi = Val::U(h as u16, U256::from_bits_msb(&bits[..h]));
            let lo = Val::U(h as u16, U256::from_bits_msb(&bits[h..]));
            probe_leaves(&hi, &Ty::U(h as u16), out)?;
            probe_leaves(&lo, &Ty::U(h as u16), out)?;
        }
        (Val::Bool(b), Ty::Bool) => out.push(Val::u(1, *b as u128)),
        (Val::Tuple(vs), Ty::Tuple(ts)) if vs.len() == ts.len() => {
            for (v, t) in vs.iter().zip(ts) {
                probe_leaves(v, t, out)?;
            }
        }
        (Val::Array(vs), Ty::Array(t, n)) if vs.len() == *n && *n <= 12 => {
            for v in vs {
                probe_leaves(v, t, out)?;
            }
        }
        _ => return Err(format!("probe_leaves: unsupported {ty:?}")),
    }
    Ok(())
}

pub fn is_sum_free(t: &Ty) -> bool {
    match t {
        Ty::Bool | Ty::U(_) => true,
        Ty::Tuple(ts) => ts.iter().all(is_sum_free),
        Ty::Array(t, n) => *n <= 12 && is_sum_free(t),
        _ => false,
    }
}

/// Turn a hand-built program into a `Prepared` (no generator bookkeeping).
pub fn prepared_from(
    cx: &mut Ctx,
    mut prog: Program,
    witnesses: Vec<(String, Ty)>,
    params: Vec<(String, Ty)>,
    primary: WMap,
    args: WMap,
    style: &Style,
) -> Result<Prepared, String> {
    prog.number_calls();
    let g = crate::gen::Generated {
        prog,
        witnesses,
        params,
        forms: Default::default(),
    };
    // `prepare` draws random primaries; override them afterwards
    let mut rng = Rng::new(1);
    let mut p = prepare_with(cx, g, &mut rng, style, Some(primary), Some(args))?;
    p.calls = collect_calls(&p.prog);
    Ok(p)
}

/// A program that names every builtin alias and binds each to its documented definition:
/// `fn idK(x: A) -> A { x }` and, in main, `let wK: A = witness::WK; let dK: DEF = idK(wK);`.
pub fn alias_table_prog() -> Program {
    let mut items = vec![];
    let mut stmts = vec![];
    for (k, name) in BUILTIN_ALIASES.iter().enumerate() {
        let def = builtin_alias(name).expect("table covers every builtin alias");
        let alias = Ty::Alias(name.to_string());
        items.push(Item::Func(Func {
            name: format!("id{k}"),
            params: vec![("x".into(), alias.clone())],
            ret: Some(alias.clone()),
            body: Expr::block(vec![], Some(Expr::var("x"))),
        }));
        stmts.push(let_(&format!("w{k}"), alias, Expr::Witness(format!("W{k}"))));
        stmts.push(let_(&format!("d{k}"), def, Expr::call(CallName::Fn(format!("id{k}")), vec![Expr::var(&format!("w{k}"))])));
    }
    items.push(main_fn(stmts));
    let mut p = Program { items, holes: vec![] };
    p.number_calls();
    p
}
