//! C05 — `satisfy` type-checks witnesses and delivers each value to its name.

use serde_json::json;

use super::common::*;
use super::exec::*;
use super::mini::*;
use crate::ast::*;
use crate::bridge::*;
use crate::pipeline::*;
use crate::rng::{fnv64, Rng};
use crate::vals::*;

/// A type with the same layout as `t` but a different nominal type, if the casting table has one.
fn same_layout_other_type(t: &Ty, rng: &mut Rng) -> Option<Ty> {
    let vars: Vec<Ty> = cast_variants(t).into_iter().filter(|v| v != t).collect();
    if vars.is_empty() {
        None
    } else {
        Some(rng.pick(&vars).clone())
    }
}

pub fn run(cx: &mut Ctx) {
    let n: u64 = if cx.thorough { 30_000 } else { 6_000 };
    for i in cx.cases(n) {
        if cx.out_of_time() {
            break;
        }
        cx.begin_case(i);
        one_program(cx, i);
    }
}

fn one_program(cx: &mut Ctx, i: u64) {
    let mut rng = cx.rng(&[i]);
    let nw = rng.below(9);
    // witnesses: a few share a type so that permutations are type-correct
    let mut ws: Vec<(String, Ty)> = vec![];
    for k in 0..nw {
        let ty = if k > 0 && rng.chance(1, 3) {
            ws[rng.below(k)].1.clone()
        } else {
            let d = rng.below(3);
            random_ty(&mut rng, d, 8)
        };
        let name = match rng.below(3) {
            0 => format!("W{k}"),
            1 => format!("w{k}_x"),
            _ => format!("Sig{k}"),
        };
        ws.push((name, ty));
    }
    // program: bind every witness and probe it against the primary value (holes)
    let mut stmts = vec![];
    let mut g = prober(cx, false);
    // partial inspection: components of tuples and arrays are skipped with this probability, so
    // that a witness value is pruned in the middle (uninspected parts next to inspected ones)
    g.probe_skip_pct = [0, 30, 60][(i % 3) as usize];
    // (the prober's own generator is seeded identically for every program)
    let inspected: Vec<bool> = ws.iter().map(|_| rng.chance(4, 5)).collect();
    g.rng = rng.clone();
    for (k, (n, t)) in ws.iter().enumerate() {
        stmts.push(let_(&format!("x{k}"), t.clone(), Expr::Witness(n.clone())));
        if inspected[k] {
            g.probe(&Expr::var(&format!("x{k}")), t, &mut stmts, 0);
        }
    }
    let holes = g.prog.holes.clone();
    drop(g);
    let prog = Program {
        items: vec![main_fn(stmts)],
        holes,
    };
    // all-distinct primary values where the type allows it
    let mut primary = WMap::new();
    for (n, t) in &ws {
        let mut v = random_val(t, &mut rng);
        for _ in 0..8 {
            if primary.values().all(|o| *o != v) {
                break;
            }
            v = random_val(t, &mut rng);
        }
        primary.insert(n.clone(), v);
    }
    let p = match prepared_from(cx, prog, ws.clone(), vec![], primary.clone(), WMap::new(), &Style::plain()) {
        Ok(p) => p,
        Err(e) => {
            cx.report.harness_error(json!({"what": e}));
            return;
        }
    };
    let Some(built) = build_or_report(cx, &p, false, false) else { return };
    let text = p.text().to_string();
    let key = fnv64(text.as_bytes());

    // ---- (a)+(c): type-correct maps are accepted and every value reaches its name
    let mut good_maps: Vec<(&str, WMap)> = vec![("exact", primary.clone())];
    // permuted values among same-typed witnesses
    if nw >= 2 {
        let mut m = primary.clone();
        'outer: for a in 0..nw {
            for b in a + 1..nw {
                if ws[a].1 == ws[b].1 {
                    let va = m[&ws[a].0].clone();
                    let vb = m[&ws[b].0].clone();
                    m.insert(ws[a].0.clone(), vb);
                    m.insert(ws[b].0.clone(), va);
                    break 'outer;
                }
            }
        }
        if m != primary {
            good_maps.push(("permuted", m));
        }
    }
    // fresh random values
    good_maps.push(("random", ws.iter().map(|(n, t)| (n.clone(), random_val(t, &mut rng))).collect()));
    for (kind, m) in &good_maps {
        let ex = execute(cx, &p, &built, m, false);
        match &ex.judgement {
            Judgement::Inconclusive { why } if why.starts_with("satisfy failed") => {
                cx.report.violation(json!({"kind": "rejected-good-map", "what": format!("{kind} map of declared types: {why}"),
                    "case": case_json(&p, m, false), "signature": format!("c05-good:{key:016x}:{kind}")}));
                continue;
            }
            _ => {}
        }
        if record(cx, &ex.judgement, &p, m, false, "c05-run") {
            let finished = matches!(ex.judgement, Judgement::Agree { finished: true, .. });
            if *kind == "exact" && !finished {
                cx.report.violation(json!({"kind": "delivery", "what": "with the exact map the probes of the witness values fail",
                    "case": case_json(&p, m, false), "signature": format!("c05-deliver:{key:016x}")}));
                continue;
            }
            cx.report.count(&format!("map_{kind}"), 1);
            cx.report.nontrivial.insert(fnv64(format!("{text}|{kind}").as_bytes()));
            if let Some(r) = &ex.redeem {
                if !r.m6.is_empty() {
                    cx.report.violation(json!({"kind": "ill-typed", "what": r.m6.join("; "), "case": case_json(&p, m, false),
                        "signature": format!("c05-m6:{key:016x}")}));
                }
            }
        }
    }
    if cx.report.samples.len() < 2 && nw >= 2 {
        cx.report.sample(json!({"program": text, "exact_map": wmap_json(&primary, &ws)}));
    }

    // ---- extra names are ignored (same-named-but-unused and unrelated)
    {
        let mut sim = to_sim_map(&primary, &ws);
        sim.push(("UNUSED".into(), to_sim_val(&Val::u(8, 7), &Ty::U(8))));
        sim.push(("zz_extra".into(), to_sim_val(&Val::Bool(true), &Ty::Bool)));
        let wv = witness_values(&sim);
        cx.report.evaluations += 1;
        match satisfy(&built.compiled, &wv, None) {
            Outcome::Ok(sat) => {
                let rep = examine_redeem(&sat, &built.commit.cmr, &cx.env, None, None);
                if !matches!(rep.exec, Outcome::Ok(Ok(()))) || !rep.m6.is_empty() || !rep.decode.is_ok() {
                    cx.report.violation(json!({"kind": "extra-names", "what": format!("map with extra names: exec {} decode {} m6 {:?}",
                        rep.exec.brief(), rep.decode.brief(), rep.m6), "program": text, "signature": format!("c05-extra:{key:016x}")}));
                } else {
                    cx.report.count("map_extra_names", 1);
                }
            }
            o => {
                cx.report.violation(json!({"kind": "extra-names", "what": format!("map with extra (unused) names rejected: {}", o.map(|_| ()).brief()),
                    "program": text, "signature": format!("c05-extra:{key:016x}")}));
            }
        }
    }

    // ---- missing names: legal; must not panic, must stay well-typed
    if nw >= 1 {
        // preferably a witness that the program binds but never inspects: then nothing depends on
        // what the library puts in its place, and the whole run can be judged
        let uninspected: Vec<usize> = (0..nw).filter(|k| !inspected[*k]).collect();
        let drop_k = if !uninspected.is_empty() && rng.chance(2, 3) { *rng.pick(&uninspected) } else { rng.below(nw) };
        let whole_run = !inspected[drop_k];
        let m: WMap = primary
            .iter()
            .filter(|(n, _)| **n != ws[drop_k].0)
            .map(|(n, v)| (n.clone(), v.clone()))
            .collect();
        let wv = witness_values(&to_sim_map(&m, &ws));
        cx.report.evaluations += 1;
        match satisfy(&built.compiled, &wv, None) {
            Outcome::Ok(sat) => {
                let rep = examine_redeem(&sat, &built.commit.cmr, &cx.env, None, None);
                if rep.exec.is_panic() || !rep.m6.is_empty() || !rep.decode.is_ok() {
                    cx.report.violation(json!({"kind": "missing-names", "what": format!("map with a missing name: exec {} decode {} m6 {:?}",
                        rep.exec.brief(), rep.decode.brief(), rep.m6), "program": text, "signature": format!("c05-missing:{key:016x}")}));
                } else {
                    cx.report.count("map_missing_name", 1);
                    // the names that ARE supplied still deliver their values: everything that
                    // happens before the missing witness is first evaluated must be as the
                    // reference prescribes (what the missing name holds is not judged)
                    let mut m_ref = m.clone();
                    m_ref.insert(ws[drop_k].0.clone(), zero_val(&ws[drop_k].1));
                    let r = run_reference(cx, &p, &m_ref, false);
                    let rep2 = examine_redeem(&sat, &built.commit.cmr, &cx.env, Some(&mut cx.jets), None);
                    if let (false, Some(trace)) = (matches!(r.verdict, Err(crate::interp::Stop::Refuse(_))), &rep2.trace) {
                        let cut = if whole_run {
                            r.events.len()
                        } else {
                            r.events
                                .iter()
                                .position(|e| matches!(e, crate::interp::REvent::Witness { name, .. } if *name == ws[drop_k].0))
                                .unwrap_or(r.events.len())
                        };
                        // with an uninspected missing witness its own event is the only one not judged
                        let r_events: Vec<crate::interp::REvent> = r.events.clone();
                        let mut o_events = trace.events.clone();
                        if whole_run {
                            if let Some(j) = r_events.iter().position(|e| matches!(e, crate::interp::REvent::Witness { name, .. } if *name == ws[drop_k].0)) {
                                if let (Some(crate::interp::REvent::Witness { value, .. }), Some(slot)) = (r_events.get(j), o_events.get_mut(j)) {
                                    if matches!(slot, crate::tracemachine::Event::Witness { .. }) {
                                        *slot = crate::tracemachine::Event::Witness { value: value.clone() };
                                    }
                                }
                            }
                            let finished_ref = r.verdict.is_ok();
                            let finished_obs = matches!(rep2.exec, Outcome::Ok(Ok(())));
                            if finished_ref != finished_obs || r_events.len() != o_events.len() {
                                cx.report.violation(json!({"kind": "missing-names", "what": format!("map without the uninspected `{}`: prescribed finishes = {finished_ref} after {} events, observed finishes = {finished_obs} after {} events", ws[drop_k].0, r_events.len(), o_events.len()),
                                    "case": case_json(&p, &m, false), "signature": format!("c05-missing-delivery:{key:016x}")}));
                                return;
                            }
                            cx.report.count("map_missing_uninspected_name_whole_run", 1);
                        }
                        let r = crate::props::common::RefRun { events: r_events, ..r };
                        let trace_events = o_events;
                        let n = cut.min(trace_events.len());
                        if let Err(e) = compare_traces(&p, &r.events[..n], &trace_events[..n], None) {
                            cx.report.violation(json!({"kind": "missing-names", "what": format!("map without `{}`: the supplied names are not delivered as prescribed: {e}", ws[drop_k].0),
                                "case": case_json(&p, &m, false), "signature": format!("c05-missing-delivery:{key:016x}")}));
                        } else if n < cut {
                            cx.report.violation(json!({"kind": "missing-names", "what": format!("map without `{}`: the run stops after {n} events, the reference prescribes {cut} before the missing witness is read", ws[drop_k].0),
                                "case": case_json(&p, &m, false), "signature": format!("c05-missing-delivery:{key:016x}")}));
                        } else {
                            cx.report.count("map_missing_name_prefix_events", n as u64);
                        }
                    }
                }
            }
            Outcome::Err(_) => cx.report.count("map_missing_name_rejected", 1),
            Outcome::Panic(pn) => {
                cx.report.violation(json!({"kind": "missing-names", "what": format!("satisfy panicked on a map with a missing name: {}", pn.message),
                    "program": text, "signature": format!("c05-missing:{key:016x}")}));
            }
        }
    }

    // ---- (b): a supplied declared name of another type is rejected
    if nw >= 1 {
        for variant in 0..3 {
            let k = rng.below(nw);
            let (name, t) = &ws[k];
            let (bad_ty, class) = match variant {
                0 => match same_layout_other_type(t, &mut rng) {
                    Some(b) => (b, "same layout, different type"),
                    None => continue,
                },
                1 => {
                    let mut b = random_ty(&mut rng, 1, 8);
                    if b == *t {
                        b = Ty::Tuple(vec![t.clone(), Ty::U(8)]);
                    }
                    (b, "different layout")
                }
                _ => (Ty::opt(t.clone()), "wrapped in Option"),
            };
            if bad_ty == *t {
                continue;
            }
            let mut sim: Vec<(String, simfony::Value)> = to_sim_map(&primary, &ws)
                .into_iter()
                .filter(|(n, _)| n != name)
                .collect();
            let bad_val = random_val(&bad_ty, &mut rng);
            sim.push((name.clone(), to_sim_val(&bad_val, &bad_ty)));
            // optionally mistype a second witness too
            if variant == 2 && nw >= 2 {
                let k2 = (k + 1) % nw;
                let (n2, t2) = &ws[k2];
                let bt = Ty::Tuple(vec![t2.clone()]);
                sim.retain(|(n, _)| n != n2);
                sim.push((n2.clone(), to_sim_val(&Val::Tuple(vec![primary[n2].clone()]), &bt)));
            }
            // the same mistyped map alone and together with names the program does not declare
            // (each map is a fresh hash map, so the iteration order of the names varies)
            for extra in 0..4usize {
                let mut sim2 = sim.clone();
                for k in 0..extra {
                    sim2.push((format!("{}{k}", ["zz_unused", "A_unused", "m"][k % 3]), to_sim_val(&Val::u(8, k as u128), &Ty::U(8))));
                }
                let wv = witness_values(&sim2);
                cx.report.evaluations += 1;
                match satisfy(&built.compiled, &wv, None) {
                    Outcome::Err(_) => {
                        cx.report.count("mistyped_rejected", 1);
                        if extra > 0 {
                            cx.report.count("mistyped_with_extra_names_rejected", 1);
                        }
                        cx.report.note("mistype_classes", class);
                        cx.report
                            .nontrivial
                            .insert(fnv64(format!("{text}|bad|{name}|{}|{extra}", render_ty(&bad_ty)).as_bytes()));
                    }
                    o => {
                        cx.report.violation(json!({"kind": "accepted-bad-map", "what": format!("witness `{name}` declared {} supplied as {} ({class}), {extra} undeclared names in the map: satisfy -> {}",
                            render_ty(t), render_ty(&bad_ty), o.map(|_| ()).brief()), "program": text,
                            "signature": format!("c05-bad:{key:016x}:{class}")}));
                        break;
                    }
                }
            }
        }
    }
}
