pub mod common;
pub mod exec;
pub mod mini;
pub mod c01;
pub mod c07;
pub mod c11;
pub mod c13;
pub mod c15;
