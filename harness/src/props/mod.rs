pub mod common;
pub mod c01;
