//! C18 — pruning for an environment never changes the verdict.

use serde_json::json;
use simfony::elements;

use super::common::*;
use super::mini::*;
use crate::ast::*;
use crate::bridge::*;
use crate::gen::{generate, GenCfg};
use crate::pipeline::*;
use crate::rng::{fnv64, Rng};
use crate::vals::*;

pub fn envs() -> Vec<(String, Env)> {
    let mut v = vec![];
    let locks = [
        ("lock0", elements::LockTime::ZERO),
        (
            "lock1000",
            elements::LockTime::Blocks(elements::locktime::Height::from_consensus(1000).unwrap()),
        ),
        ("locktime", elements::LockTime::from_time(1_734_967_235).unwrap()),
    ];
    let seqs = [
        ("seqmax", elements::Sequence::MAX),
        ("seq1000", elements::Sequence::from_height(1000)),
        ("seqnorbf", elements::Sequence::ENABLE_LOCKTIME_NO_RBF),
    ];
    for (i, (ln, l)) in locks.iter().enumerate() {
        for (j, (sn, s)) in seqs.iter().enumerate() {
            if (i + j) % 2 == 0 || (i == 1 && j == 2) {
                let fee = (i + j) % 3 == 0;
                v.push((
                    format!("{ln}-{sn}-fee{fee}"),
                    simfony::dummy_env::dummy_with(*l, *s, fee),
                ));
            }
        }
    }
    v
}

/// Programs whose control flow depends on the transaction environment.
fn env_program(rng: &mut Rng, k: u64) -> (Program, Vec<(String, Ty)>) {
    let u32lit = |x: u32| Expr::Int(x.to_string());
    let cond: Expr = match k % 8 {
        0 => Expr::jet("lt_32", vec![Expr::jet("tx_lock_height", vec![]), u32lit(500)]),
        1 => Expr::jet("tx_is_final", vec![]),
        2 => Expr::jet("eq_32", vec![Expr::jet("num_outputs", vec![]), u32lit(1)]),
        3 => Expr::jet("eq_32", vec![Expr::jet("version", vec![]), u32lit(2)]),
        4 => Expr::jet("lt_32", vec![Expr::jet("lock_time", vec![]), u32lit(100_000)]),
        5 => Expr::jet("eq_32", vec![Expr::jet("current_sequence", vec![]), Expr::Int("0xffffffff".into())]),
        6 => Expr::jet("lt_16", vec![Expr::jet("tx_lock_distance", vec![]), Expr::Int("500".into())]),
        _ => Expr::jet("eq_32", vec![Expr::jet("num_inputs", vec![]), u32lit(1)]),
    };
    let arm = |rng: &mut Rng, w: &str| -> Expr {
        match rng.below(5) {
            0 => Expr::block(vec![assert_(Expr::jet("eq_8", vec![Expr::Witness(w.into()), Expr::Int("7".into())]))], None),
            1 => Expr::block(vec![Stmt::Expr(Expr::jet("check_lock_height", vec![Expr::Int("900".into())]))], None),
            2 => Expr::block(vec![Stmt::Expr(Expr::jet("check_lock_distance", vec![Expr::Int("900".into())]))], None),
            3 => Expr::block(vec![Stmt::Let(Pat::Ignore, Ty::U(8), Expr::Witness(w.into()))], None),
            _ => Expr::block(vec![Stmt::Expr(Expr::call(CallName::Panic, vec![]))], None),
        }
    };
    let a0 = arm(rng, "A");
    let a1 = arm(rng, "B");
    let mut stmts = vec![Stmt::Expr(Expr::Match(
        Box::new(cond),
        Box::new([Arm { pat: MatchPat::True, body: a0 }, Arm { pat: MatchPat::False, body: a1 }]),
    ))];
    if rng.chance(1, 2) {
        stmts.push(assert_(Expr::jet("eq_8", vec![Expr::Witness("C".into()), Expr::Int("1".into())])));
    }
    let mut ws = vec![];
    let prog = Program { items: vec![main_fn(stmts)], holes: vec![] };
    let mut seen = vec![];
    for f in prog.funcs() {
        f.body.visit(&mut |e| {
            if let Expr::Witness(n) = e {
                if !seen.contains(n) {
                    seen.push(n.clone());
                }
            }
        });
    }
    for n in seen {
        ws.push((n, Ty::U(8)));
    }
    (prog, ws)
}

pub fn run(cx: &mut Ctx) {
    let envs = envs();
    // corpus regression inputs (programs with a witness file), shard 0
    if cx.shard == 0 && cx.only_case.map_or(true, |c| c == CORPUS_CASE) {
        cx.begin_case(CORPUS_CASE);
        for (name, text, wv) in corpus_with_witness() {
            for debug in [false, true] {
                let Ok(built) = build(&text, &simfony::Arguments::default(), debug) else { continue };
                let Outcome::Ok(unpruned) = satisfy(&built.compiled, &wv, None) else { continue };
                judge_envs(cx, &text, &built, &wv, &unpruned, json!(name), &envs, &format!("corpus {name} {debug}"), false);
                cx.report.count("corpus_inputs", 1);
            }
        }
    }
    if cx.only_case == Some(CORPUS_CASE) {
        return;
    }
    let n: u64 = if cx.thorough { 20_000 } else { 700 };
    for i in cx.cases(n) {
        if cx.out_of_time() {
            break;
        }
        cx.begin_case(i);
        let mut rng = cx.rng(&[i]);
        let small_domain = i % 2 == 0;
        let mut fixed_primary: Option<WMap> = None;
        let (text, ws): (String, Vec<(String, Ty)>) = if small_domain {
            let (mut prog, ws) = env_program(&mut rng, i / 2);
            prog.number_calls();
            (render_plain(&prog), ws)
        } else if i % 4 == 3 {
            // one witness value read in two branches that inspect different parts of it; the
            // branch not taken is hidden by pruning, which narrows the type of the shared value
            let d = 1 + rng.below(2);
            // half of the time a sum whose left payload has a leading component that only one
            // branch reads (the shape in which a pruned Left can be mistaken for a Right)
            let t = if rng.chance(1, 2) {
                let lead = random_ty(&mut rng, 0, 8);
                let rest = random_ty(&mut rng, d - 1, 8);
                Ty::either(Ty::Tuple(vec![lead, rest]), random_ty(&mut rng, 0, 8))
            } else {
                random_ty(&mut rng, d, 8)
            };
            // the witness expression stands alone or inside a constructor
            let wrap = rng.below(4);
            let wt = t.clone();
            let (t, wexpr) = match wrap {
                0 => (Ty::opt(wt.clone()), Expr::Some_(Box::new(Expr::Witness("W".into())))),
                1 => (Ty::either(Ty::U(8), wt.clone()), Expr::Right(Box::new(Expr::Witness("W".into())))),
                2 => (Ty::Tuple(vec![Ty::U(8), wt.clone()]), Expr::Tuple(vec![Expr::Int("7".into()), Expr::Witness("W".into())])),
                _ => (wt.clone(), Expr::Witness("W".into())),
            };
            let ws = vec![("W".to_string(), wt.clone()), ("FLAG".to_string(), Ty::Bool)];
            let mut g = prober(cx, false);
            g.rng = rng.clone();
            let mut arms = vec![];
            for skip in [0usize, 55] {
                g.probe_skip_pct = skip;
                let mut body = vec![];
                g.probe(&Expr::var("w"), &t, &mut body, 0);
                arms.push(Expr::block(body, None));
            }
            let holes = g.prog.holes.clone();
            drop(g);
            let second = arms.pop().unwrap();
            let first = arms.pop().unwrap();
            let stmts = vec![
                let_("w", t.clone(), wexpr),
                Stmt::Expr(Expr::Match(
                    Box::new(Expr::Witness("FLAG".into())),
                    Box::new([Arm { pat: MatchPat::False, body: second }, Arm { pat: MatchPat::True, body: first }]),
                )),
            ];
            let prog = Program { items: vec![main_fn(stmts)], holes };
            let mut primary = WMap::new();
            primary.insert("W".to_string(), random_val(&wt, &mut rng));
            primary.insert("FLAG".to_string(), Val::Bool(rng.chance(1, 4)));
            cx.report.count("shared_witness_programs", 1);
            fixed_primary = Some(primary.clone());
            match prepared_from(cx, prog, ws.clone(), vec![], primary, WMap::new(), &Style::plain()) {
                Ok(p) => (p.text().to_string(), ws),
                Err(e) => {
                    cx.report.harness_error(json!({"what": e}));
                    continue;
                }
            }
        } else {
            let mut cfg = GenCfg::default();
            cfg.size_budget = 60;
            cfg.all_jets = i % 4 == 1;
            let g = generate(rng.clone(), cfg, &cx.golden);
            match prepare(cx, g, &mut rng, &Style::plain()) {
                Ok(p) => (p.text().to_string(), p.witnesses.clone()),
                Err(e) => {
                    cx.report.harness_error(json!({"what": e}));
                    continue;
                }
            }
        };
        let built = match build(&text, &simfony::Arguments::default(), i % 3 == 0) {
            Ok(b) => b,
            Err(_) => {
                cx.report.inconclusive(json!({"why": "program not accepted (C03/C04's subject)", "program": text}));
                continue;
            }
        };
        for k in 0..5 {
            let mut m: WMap = ws
                .iter()
                .map(|(n, t)| {
                    let v = if small_domain {
                        // small domain around the asserted constants
                        Val::u(8, *rng.pick(&[7u128, 1, 0]))
                    } else if k == 0 {
                        boundary_vals(t)[0].clone()
                    } else {
                        random_val(t, &mut rng)
                    };
                    (n.clone(), v)
                })
                .collect();
            // the probe constants of the shared-witness family fit its primary assignment
            if let (Some(pm), true) = (&fixed_primary, k <= 1) {
                m = pm.clone();
            }
            // maps that leave names out are legal too (the library zero-fills them)
            if k == 3 {
                m.clear();
                cx.report.count("maps_empty", 1);
            } else if k == 4 {
                if ws.is_empty() {
                    continue;
                }
                let drop = ws[rng.below(ws.len())].0.clone();
                m.remove(&drop);
                cx.report.count("maps_with_a_missing_name", 1);
            }
            let wv = witness_values(&to_sim_map(&m, &ws));
            // the unpruned program is the oracle, as the property is stated
            let unpruned = match satisfy(&built.compiled, &wv, None) {
                Outcome::Ok(s) => s,
                _ => {
                    cx.report.inconclusive(json!({"why": "satisfy without environment failed (C05's subject)", "program": text}));
                    continue;
                }
            };
            judge_envs(cx, &text, &built, &wv, &unpruned, wmap_json(&m, &ws), &envs, &format!("{k}"), i % 2 == 0 && k == 0);
        }
    }
}

/// One (program, witness map): for every environment, what `satisfy_with_env` returns against
/// the unpruned program run under that environment.
#[allow(clippy::too_many_arguments)]
fn judge_envs(cx: &mut Ctx, text: &str, built: &Compiled, wv: &simfony::WitnessValues, unpruned: &simfony::SatisfiedProgram, wjson: serde_json::Value,
    envs: &[(String, Env)], label: &str, sample: bool) {
    for (ename, env) in envs {
        cx.report.evaluations += 1;
        let mut sig = format!("prune:{:016x}:{ename}", fnv64(text.as_bytes()));
        let base = match exec_redeem(unpruned.redeem(), env) {
            Outcome::Ok(r) => r.is_ok(),
            o => {
                cx.report.inconclusive(json!({"why": format!("unpruned execution did not return (C02's subject): {}", o.brief()), "program": text}));
                continue;
            }
        };
        let pruned = satisfy(&built.compiled, &wv, Some(env));
        let mut problems = vec![];
        match &pruned {
            Outcome::Ok(sat) => {
                if !base {
                    problems.push("satisfy_with_env returned a program although the unpruned program fails under env".to_string());
                }
                let (m6, _) = m6_check(sat.redeem(), &built.commit.cmr);
                problems.extend(m6);
                let (pb, wb) = sat.redeem().encode_to_vec();
                match decode_redeem(&pb, &wb) {
                    Outcome::Ok(d) => {
                        if cmr_bytes(d.cmr()) != built.commit.cmr {
                            problems.push("decoded pruned program has another CMR".into());
                        }
                        match exec_redeem(&d, env) {
                            Outcome::Ok(Ok(())) => {}
                            o => {
                                problems.push(format!("the pruned program does not succeed under env: {o:?}").chars().take(200).collect());
                                // diagnosis of the recorded finding F15: the program as returned (in
                                // memory) succeeds, but it holds two assertions of one identity hash
                                // (IHR) that hide opposite branches; the encoding shares nodes by IHR,
                                // so the decoded program has one of the two at both places
                                if matches!(exec_redeem(sat.redeem(), env), Outcome::Ok(Ok(()))) && problems.len() == 1 {
                                    let mut hidden: std::collections::HashMap<[u8; 32], (bool, bool)> = std::collections::HashMap::new();
                                    walk_redeem(sat.redeem(), &mut |n| {
                                        use simfony::simplicity::node::Inner;
                                        let e = hidden.entry(n.ihr().to_byte_array()).or_insert((false, false));
                                        match n.inner() {
                                            Inner::AssertL(..) => e.1 = true,
                                            Inner::AssertR(..) => e.0 = true,
                                            _ => {}
                                        }
                                    });
                                    if hidden.values().any(|(l, r)| *l && *r) {
                                        sig = "prune:ihr-collision-of-opposite-assertions".to_string();
                                    }
                                }
                            }
                        }
                    }
                    o => problems.push(format!("the pruned program's encoding does not decode: {}", o.map(|_| ()).brief())),
                }
                cx.report.count("pruned_ok", 1);
            }
            Outcome::Err(_) => {
                if base {
                    problems.push("satisfy_with_env failed although the unpruned program succeeds under env".to_string());
                }
                cx.report.count("pruned_err", 1);
            }
            Outcome::Panic(p) => problems.push(format!("satisfy_with_env panicked: {} @ {}", p.message, p.location)),
        }
        if problems.is_empty() {
            cx.report.nontrivial.insert(fnv64(format!("{text}|{label}|{ename}").as_bytes()));
            cx.report.note("envs", ename);
        } else {
            cx.report.violation(json!({"kind": "prune", "what": problems.join("; "), "program": text, "witness": wjson.clone(),
                "env": ename, "unpruned_succeeds": base, "signature": sig}));
        }
        if cx.report.samples.len() < 2 && sample {
            cx.report.sample(json!({"program": text, "env": ename, "unpruned_succeeds": base, "pruned": pruned.as_ref().map(|_| ()).brief()}));
        }
    }
}
