//! One monitored execution: reference interpreter vs. the real pipeline
//! (satisfy -> encode -> decode -> Bit Machine, with the trace machine recording the history).

use serde_json::{json, Value as J};

use super::common::*;
use crate::bridge::*;
use crate::interp::Stop;
use crate::pipeline::*;
use crate::tracemachine::Event;

pub enum Judgement {
    /// verdict and event log agree; `finished` = the program ran to completion
    Agree { finished: bool, events: usize },
    VerdictMismatch { prescribed: String, observed: String },
    TraceMismatch { what: String },
    /// something outside this property's subject went wrong (other properties judge it)
    Inconclusive { why: String },
    HarnessError { what: String },
}

pub struct Execution {
    pub judgement: Judgement,
    pub reference: RefRun,
    pub redeem: Option<RedeemReport>,
}

pub fn execute(cx: &mut Ctx, p: &Prepared, built: &Compiled, w: &WMap, debug: bool) -> Execution {
    let r = run_reference(cx, p, w, debug);
    if let Err(Stop::Refuse(why)) = &r.verdict {
        return Execution {
            judgement: Judgement::HarnessError { what: format!("reference refused: {why}") },
            reference: r,
            redeem: None,
        };
    }
    let wv = witness_values(&to_sim_map(w, &p.witnesses));
    let sat = match satisfy(&built.compiled, &wv, None) {
        Outcome::Ok(s) => s,
        other => {
            return Execution {
                judgement: Judgement::Inconclusive {
                    why: format!("satisfy failed on a type-correct witness: {}", other.map(|_| ()).brief()),
                },
                reference: r,
                redeem: None,
            }
        }
    };
    let syms = built.compiled.debug_symbols();
    let rep = examine_redeem(
        &sat,
        &built.commit.cmr,
        &cx.env,
        Some(&mut cx.jets),
        if debug { Some(syms) } else { None },
    );
    cx.report.evaluations += 1;
    let real_ok = match &rep.exec {
        Outcome::Ok(Ok(())) => true,
        Outcome::Ok(Err(_)) => false,
        other => {
            let why = format!("bit machine did not return: {}", other.brief());
            return Execution {
                judgement: Judgement::Inconclusive { why },
                reference: r,
                redeem: Some(rep),
            };
        }
    };
    if !rep.decode.is_ok() {
        return Execution {
            judgement: Judgement::Inconclusive { why: format!("redeem program does not decode: {}", rep.decode.brief()) },
            reference: r,
            redeem: Some(rep),
        };
    }
    let ref_ok = r.verdict.is_ok();
    if real_ok != ref_ok {
        return Execution {
            judgement: Judgement::VerdictMismatch {
                prescribed: verdict_str(&r.verdict),
                observed: format!("{:?}", rep.exec),
            },
            reference: r,
            redeem: Some(rep),
        };
    }
    let mut n_events = 0;
    if let Some(trace) = &rep.trace {
        if let Err(e) = trace_agrees(trace, &rep.exec) {
            return Execution {
                judgement: Judgement::HarnessError { what: e },
                reference: r,
                redeem: Some(rep),
            };
        }
        n_events = trace.events.len();
        for ev in &trace.events {
            match ev {
                Event::Jet { name, .. } => {
                    cx.report.count("events_jet", 1);
                    if cx.report.sets.get("jets_observed").map_or(true, |s| s.len() < 600) {
                        cx.report.note("jets_observed", name);
                    }
                }
                Event::Unwrap { .. } => cx.report.count("events_unwrap", 1),
                Event::Fail => cx.report.count("events_fail", 1),
                Event::Marker { .. } => cx.report.count("events_marker", 1),
                Event::OtherAssert { .. } => cx.report.count("events_other_assert", 1),
                Event::Witness { .. } => cx.report.count("events_witness", 1),
            }
        }
        if let Err(e) = compare_traces(p, &r.events, &trace.events, if debug { Some(syms) } else { None }) {
            return Execution {
                judgement: Judgement::TraceMismatch { what: e },
                reference: r,
                redeem: Some(rep),
            };
        }
    }
    if ref_ok {
        cx.report.count("runs_finished", 1);
    } else {
        cx.report.count("runs_panicked", 1);
    }
    Execution {
        judgement: Judgement::Agree { finished: ref_ok, events: n_events },
        reference: r,
        redeem: Some(rep),
    }
}

/// Record a non-agreeing judgement in the report. Returns true when the execution agreed.
pub fn record(cx: &mut Ctx, j: &Judgement, p: &Prepared, w: &WMap, debug: bool, sig_prefix: &str) -> bool {
    let sig = format!("{sig_prefix}:{:016x}", crate::rng::fnv64(p.text().as_bytes()));
    match j {
        Judgement::Agree { .. } => true,
        Judgement::VerdictMismatch { prescribed, observed } => {
            cx.report.violation(json!({"kind": "verdict", "what": format!("prescribed: {prescribed}; observed: {observed}"),
                "case": case_json(p, w, debug), "signature": sig}));
            false
        }
        Judgement::TraceMismatch { what } => {
            cx.report.violation(json!({"kind": "trace", "what": what, "case": case_json(p, w, debug), "signature": sig}));
            false
        }
        Judgement::Inconclusive { why } => {
            cx.report.inconclusive(json!({"why": why, "case": case_json(p, w, debug)}));
            false
        }
        Judgement::HarnessError { what } => {
            cx.report.harness_error(json!({"what": what, "case": case_json(p, w, debug)}));
            false
        }
    }
}

/// Build a program for C-properties that expect acceptance; a rejection is reported as `kind`.
pub fn build_or_report(cx: &mut Ctx, p: &Prepared, debug: bool, reject_is_violation: bool) -> Option<Compiled> {
    let sim_args = arguments(&to_sim_map(&p.args, &p.params));
    match build(p.text(), &sim_args, debug) {
        Ok(b) => Some(b),
        Err(f) => {
            let (what, detail): (&str, J) = match &f {
                BuildFail::Rejected(e) => ("rejected by the front end", json!(last_line(e))),
                BuildFail::Backend(e) => ("accepted, then failed to compile", json!(last_line(e))),
                BuildFail::Panic(pn) => ("panic while compiling", json!(format!("{} @ {}", pn.message, pn.location))),
            };
            let v = json!({"kind": "build", "what": format!("{what}: {detail}"), "program": p.text(),
                "signature": format!("build:{:016x}", crate::rng::fnv64(p.text().as_bytes()))});
            if reject_is_violation {
                cx.report.violation(v);
            } else {
                cx.report.inconclusive(v);
            }
            None
        }
    }
}
