//! C06 — every text entry point is total: Ok or Err, never a panic, abort or stack overflow.
//!
//! The worker drives child processes (8 MiB thread stack like an ordinary caller, address space
//! limited) over ranges of cases; a child that dies is attributed to the case it announced last,
//! which is re-run alone for confirmation before it is reported.

use std::io::Write;
use std::process::{Command, Stdio};

use serde_json::{json, Value as J};
use simfony::parse::ParseFromStr;
use simfony::{Arguments, ResolvedType, Value, WitnessValues};

use super::common::*;
use crate::ast::*;
use crate::bridge::*;
use crate::gen::{generate, GenCfg};
use crate::mutate_text::*;
use crate::pipeline::*;
use crate::rng::{fnv64, Rng};
use crate::vals::*;

pub fn merge_json(r: &mut Report, j: &J) {
    r.evaluations += j["evaluations"].as_u64().unwrap_or(0);
    if let Some(a) = j["nontrivial"].as_array() {
        for x in a {
            if let Some(h) = x.as_u64() {
                r.nontrivial.insert(h);
            }
        }
    }
    if let Some(o) = j["counters"].as_object() {
        for (k, v) in o {
            if k.ends_with("_total") {
                continue;
            }
            r.count(k, v.as_u64().unwrap_or(0));
        }
    }
    for v in j["violations"].as_array().cloned().unwrap_or_default() {
        r.violation(v);
    }
    for v in j["inconclusive"].as_array().cloned().unwrap_or_default() {
        r.inconclusive(v);
    }
    for v in j["harness_errors"].as_array().cloned().unwrap_or_default() {
        r.harness_error(v);
    }
    for v in j["samples"].as_array().cloned().unwrap_or_default() {
        r.sample(v);
    }
    if let Some(o) = j["sets"].as_object() {
        for (k, v) in o {
            for x in v.as_array().cloned().unwrap_or_default() {
                if let Some(s) = x.as_str() {
                    r.note(k, s);
                }
            }
        }
    }
}

// ------------------------------------------------------------------------------------------
// bases

pub fn example_texts() -> Vec<(String, String)> {
    let dir = std::path::Path::new("/repo/examples");
    let mut v: Vec<(String, String)> = std::fs::read_dir(dir)
        .map(|d| {
            d.filter_map(|e| e.ok())
                .filter_map(|e| {
                    let n = e.file_name().to_string_lossy().to_string();
                    std::fs::read_to_string(e.path()).ok().map(|t| (n, t))
                })
                .collect()
        })
        .unwrap_or_default();
    v.sort();
    // none of the shipped examples names all builtin aliases: one synthetic program does, and
    // binds each alias to its documented definition (accepted only if they are the same type)
    v.push(("zz_builtin_aliases.simf".to_string(), alias_table_program()));
    v
}

pub fn alias_table_program() -> String {
    render_plain(&super::mini::alias_table_prog())
}

pub fn type_pool() -> Vec<Ty> {
    let mut v: Vec<Ty> = WIDTHS.iter().map(|w| Ty::U(*w)).collect();
    v.extend([Ty::Bool, Ty::unit()]);
    for t in [Ty::U(8), Ty::U(1), Ty::Bool, Ty::U(256), Ty::unit()] {
        v.push(Ty::opt(t.clone()));
        v.push(Ty::either(t.clone(), Ty::U(16)));
        v.push(Ty::Tuple(vec![t.clone()]));
        v.push(Ty::Tuple(vec![t.clone(), Ty::U(32)]));
        v.push(Ty::arr(t.clone(), 0));
        v.push(Ty::arr(t.clone(), 3));
        v.push(Ty::list(t.clone(), 2));
        v.push(Ty::list(t.clone(), 8));
    }
    v.push(Ty::arr(Ty::U(8), 32));
    v.push(Ty::arr(Ty::U(8), 64));
    v.push(Ty::list(Ty::arr(Ty::U(8), 2), 4));
    v.push(Ty::opt(Ty::opt(Ty::opt(Ty::U(4)))));
    v.push(Ty::either(Ty::either(Ty::U(8), Ty::Bool), Ty::Tuple(vec![Ty::U(1), Ty::U(256)])));
    v.push(Ty::Tuple(vec![Ty::list(Ty::U(8), 64), Ty::Tuple(vec![Ty::U(64), Ty::U(256)])]));
    v
}

/// The text of case `i` and the kind of entry points it is aimed at.
fn case_text(cx: &mut Ctx, i: u64, examples: &[(String, String)]) -> (String, &'static str) {
    let mut rng = cx.rng(&[i]);
    let kind = i % 10;
    match kind {
        0..=3 => {
            // generated program, mutated
            let mut cfg = GenCfg::default();
            cfg.size_budget = 30;
            cfg.max_depth = 2;
            cfg.ty_depth = 1;
            cfg.max_stmts = 3;
            cfg.max_params = (i % 3) as usize;
            let g = generate(rng.clone(), cfg, &cx.golden);
            // half of the bases in a random layout: tabs, CRLF, comments (also non-ASCII) in
            // front of and inside calls, so that span arithmetic meets multi-byte characters
            let style = if i % 2 == 0 { Style::plain() } else { Style::random(&mut rng) };
            let (text, prepared_again): (String, Result<Program, ()>) = match prepare(cx, g, &mut rng, &style) {
                Ok(p) => (p.text().to_string(), Ok(p.prog)),
                Err(_) => ("fn main() { }".to_string(), Err(())),
            };
            let base = if nesting_depth(&text) <= MAX_DEPTH { text } else { "fn main() { let x: u8 = 1; }".to_string() };
            if kind == 1 {
                // the styled program itself: every stage behind the front end is reached
                return (base, "program");
            }
            if kind == 2 && i % 20 < 10 {
                // a near-miss edit of the AST (analysis errors, and accepted oddities that reach code generation)
                if let Ok(p) = prepared_again {
                    let (q, _) = crate::mutate_ast::mutate(&p, &mut rng);
                    let t = render(&q, &style).text;
                    if nesting_depth(&t) <= MAX_DEPTH {
                        return (t, "program");
                    }
                }
            }
            (mutate_text(&base, &mut rng), "program")
        }
        4 => {
            // shipped example, mutated
            let progs: Vec<&(String, String)> = examples.iter().filter(|(n, _)| n.ends_with(".simf")).collect();
            let (_, t) = rng.pick(&progs);
            (mutate_text(t, &mut rng), "program")
        }
        5 => {
            // witness / param module
            let n = rng.below(4);
            let mut s = format!("mod {} {{\n", if rng.chance(1, 2) { "witness" } else { "param" });
            for k in 0..n {
                let t = random_ty(&mut rng, 2, 8);
                let v = random_val(&t, &mut rng);
                s.push_str(&format!("    const W{k}: {} = {};\n", render_ty(&t), render_val_dec(&v)));
            }
            s.push_str("}\n");
            // module-level shapes that no token edit produces: the module (or the other one) a
            // second time in various layouts, a program around it, a foreign module, no body
            let other = if s.starts_with("mod witness") { s.replacen("mod witness", "mod param", 1) } else { s.replacen("mod param", "mod witness", 1) };
            let s = match rng.below(12) {
                0 => format!("{s}{s}"),
                1 => format!("{}{s}", s.trim_end()),                      // `} mod ..` on one line
                2 => format!("{} /* again */ {s}", s.trim_end()),
                3 => format!("{s}\n\n    {s}"),
                4 => format!("{s}{other}"),
                5 => format!("{other}{s}fn main() {{\n}}\n"),
                6 => format!("mod other {{\n    const A: u8 = 1;\n}}\n{s}"),
                7 => s.replace(" {\n", " {").replace("\n}", "}"),
                8 => format!("{}{}", s.trim_end(), s.replace('\n', " ")),
                _ => s,
            };
            (if rng.chance(1, 3) { s } else { mutate_text(&s, &mut rng) }, "module")
        }
        6 => {
            // JSON file
            let jsons: Vec<&(String, String)> = examples
                .iter()
                .filter(|(n, _)| n.ends_with(".wit") || n.ends_with(".args"))
                .collect();
            let base = if rng.chance(1, 2) && !jsons.is_empty() {
                rng.pick(&jsons).1.clone()
            } else {
                let t = random_ty(&mut rng, 2, 8);
                let v = random_val(&t, &mut rng);
                format!("{{\n  \"A\": {{ \"value\": \"{}\", \"type\": \"{}\" }}\n}}", render_val_dec(&v), render_ty(&t))
            };
            (mutate_text(&base, &mut rng), "json")
        }
        7 => {
            // value string
            let t = random_ty(&mut rng, 3, 16);
            let v = random_val(&t, &mut rng);
            (mutate_text(&render_val_dec(&v), &mut rng), "value")
        }
        8 => {
            let t = random_ty(&mut rng, 3, 64);
            (mutate_text(&render_ty(&t), &mut rng), "type")
        }
        _ => {
            let n = rng.below(40);
            (random_string(&mut rng, n), "raw")
        }
    }
}

/// Push one text through every entry point. Any panic is a violation.
fn one_text(cx: &mut Ctx, text: &str, aim: &str, pool: &[(Ty, ResolvedType)], i: u64) {
    cx.report.evaluations += 1;
    let mut panics: Vec<(String, PanicInfo)> = vec![];
    let mut note = |stage: &str, p: PanicInfo| panics.push((stage.to_string(), p));
    let mut ok_stages = 0;

    // program compilation and instantiation
    match new_template(text) {
        Outcome::Ok(t) => {
            ok_stages += 1;
            let mut rng = Rng::new(i);
            let args: Vec<(String, simfony::Value)> = t
                .parameters()
                .iter()
                .map(|(n, ty)| {
                    let hty = from_sim_ty(ty);
                    (n.to_string(), to_sim_val(&random_val(&hty, &mut rng), &hty))
                })
                .collect();
            for (a, dbg) in [(arguments(&args), false), (arguments(&args), true), (Arguments::default(), false)] {
                match instantiate(&t, &a, dbg) {
                    Outcome::Ok(c) => {
                        ok_stages += 1;
                        match commit(&c) {
                            Outcome::Panic(p) => note("commit", p),
                            _ => {}
                        }
                        for w in [WitnessValues::default(), witness_values(&[("A".to_string(), to_sim_val(&Val::u(8, 1), &Ty::U(8)))])] {
                            match satisfy(&c, &w, None) {
                                Outcome::Ok(s) => {
                                    if let Err(p) = guard(|| s.redeem().encode_to_vec()) {
                                        note("encode", p);
                                    }
                                }
                                Outcome::Panic(p) => note("satisfy", p),
                                Outcome::Err(_) => {}
                            }
                        }
                    }
                    Outcome::Panic(p) => note("instantiate", p),
                    Outcome::Err(_) => {}
                }
            }
            cx.report.count("programs_accepted", 1);
        }
        Outcome::Err(_) => cx.report.count("programs_rejected", 1),
        Outcome::Panic(p) => note("TemplateProgram::new", p),
    }
    // modules
    match call(|| WitnessValues::parse_from_str(text)) {
        Outcome::Panic(p) => note("WitnessValues::parse_from_str", p),
        Outcome::Ok(m) => {
            ok_stages += 1;
            cx.report.count("witness_modules_accepted", 1);
            if let Err(p) = guard(|| m.to_string()) {
                note("WitnessValues::to_string", p);
            }
        }
        _ => {}
    }
    match call(|| Arguments::parse_from_str(text)) {
        Outcome::Panic(p) => note("Arguments::parse_from_str", p),
        Outcome::Ok(_) => {
            ok_stages += 1;
            cx.report.count("param_modules_accepted", 1);
        }
        _ => {}
    }
    // JSON
    match call(|| serde_json::from_str::<WitnessValues>(text)) {
        Outcome::Panic(p) => note("serde_json::from_str::<WitnessValues>", p),
        Outcome::Ok(m) => {
            ok_stages += 1;
            cx.report.count("json_accepted", 1);
            if let Outcome::Panic(p) = call(|| serde_json::to_string(&m)) {
                note("serde_json::to_string", p);
            }
        }
        _ => {}
    }
    if let Outcome::Panic(p) = call(|| serde_json::from_str::<Arguments>(text)) {
        note("serde_json::from_str::<Arguments>", p);
    }
    // types and values
    match call(|| ResolvedType::parse_from_str(text)) {
        Outcome::Panic(p) => note("ResolvedType::parse_from_str", p),
        Outcome::Ok(t) => {
            ok_stages += 1;
            cx.report.count("types_accepted", 1);
            if let Err(p) = guard(|| t.to_string()) {
                note("ResolvedType::to_string", p);
            }
        }
        _ => {}
    }
    let every = aim == "value" || aim == "raw" || text.len() < 40;
    for (k, (_, sty)) in pool.iter().enumerate() {
        if !every && k % 9 != (i % 9) as usize {
            continue;
        }
        match call(|| Value::parse_from_str(text, sty)) {
            Outcome::Panic(p) => note(&format!("Value::parse_from_str(.., {sty})"), p),
            Outcome::Ok(v) => {
                ok_stages += 1;
                cx.report.count("values_accepted", 1);
                if let Err(p) = guard(|| v.to_string()) {
                    note("Value::to_string", p);
                }
            }
            _ => {}
        }
    }
    cx.report.count(&format!("texts_{aim}"), 1);
    if panics.is_empty() {
        cx.report.nontrivial.insert(fnv64(text.as_bytes()));
        if ok_stages > 0 {
            cx.report.count("texts_accepted_somewhere", 1);
        }
        if cx.report.samples.len() < 3 && i % 17 == 3 {
            cx.report.sample(json!({"aim": aim, "text": text.chars().take(300).collect::<String>()}));
        }
    } else {
        for (stage, p) in panics {
            cx.report.violation(json!({"kind": "panic", "what": format!("{stage} panicked: {} @ {}", p.message, p.location),
                "text": text, "signature": format!("panic:{}:{}", p.location, p.message.chars().take(60).collect::<String>())}));
        }
    }
}

/// Child: run cases [from, to) announcing each one first.
pub fn run_child(cx: &mut Ctx, from: u64, to: u64) {
    let examples = example_texts();
    let pool: Vec<(Ty, ResolvedType)> = type_pool().into_iter().map(|t| (t.clone(), to_sim_ty(&t))).collect();
    let stdout = std::io::stdout();
    for i in from..to {
        if cx.out_of_time() {
            break;
        }
        {
            let mut o = stdout.lock();
            let _ = writeln!(o, "CASE {i}");
            let _ = o.flush();
        }
        cx.begin_case(i);
        if i >= CORPUS_BASE {
            // corpus regression texts have their own case numbers
            if let Some((_, t)) = corpus_texts().get((i - CORPUS_BASE) as usize) {
                one_text(cx, t, "corpus", &pool, i);
            }
            continue;
        }
        let (text, aim) = case_text(cx, i, &examples);
        let text = cap_sizes(&text);
        one_text(cx, &text, aim, &pool, i);
    }
    {
        let mut o = stdout.lock();
        let _ = writeln!(o, "CASE done");
    }
}

pub const CORPUS_BASE: u64 = 1_000_000_000;

/// (file name, text) of the regression inputs `corpus/c06_*`.
fn corpus_texts() -> Vec<(String, String)> {
    let root = std::env::var("VERIF_ROOT").unwrap_or_else(|_| "/verif".into());
    let mut v = vec![];
    if let Ok(d) = std::fs::read_dir(format!("{root}/corpus")) {
        let mut names: Vec<_> = d.filter_map(|e| e.ok()).map(|e| e.path()).collect();
        names.sort();
        for p in names {
            let name = p.file_name().map(|n| n.to_string_lossy().to_string()).unwrap_or_default();
            if name.starts_with("c06_") {
                if let Ok(t) = std::fs::read_to_string(&p) {
                    v.push((name, t));
                }
            }
        }
    }
    v
}

/// Input predicate of the known finding F7 (DESIGN.md): array sizes and list bounds above 2^16
/// make the library allocate `size` elements; generated texts stay below, fixed corpus inputs
/// demonstrate the defect. A number that follows `;` or `,` is clamped.
pub fn cap_sizes(text: &str) -> String {
    let mut ts = lex(text);
    let mut prev_sig: Option<String> = None;
    for t in ts.iter_mut() {
        if t.kind == TokKind::Space || t.kind == TokKind::Comment {
            continue;
        }
        if t.kind == TokKind::Number
            && t.text.chars().all(|c| c.is_ascii_digit() || c == '_')
            && matches!(prev_sig.as_deref(), Some(";") | Some(","))
        {
            let digits: String = t.text.chars().filter(|c| c.is_ascii_digit()).collect();
            let big = digits.trim_start_matches('0').len() > 5 || digits.parse::<u64>().map_or(true, |x| x > 65536);
            if big {
                t.text = "65536".into();
            }
        }
        prev_sig = Some(t.text.clone());
    }
    unlex(&ts)
}

fn spawn_child(cx: &Ctx, bin: &str, from: u64, to: u64, budget: f64) -> (Option<J>, Option<u64>, String) {
    // AddressSanitizer reserves terabytes of address space for its shadow memory: no address-space
    // limit in that build (its own `hard_rss_limit_mb` bounds real memory instead)
    let limit = if std::env::var("VERIF_ASAN").is_ok() { "" } else { "ulimit -v 8388608; " };
    let cmdline = format!(
        "{limit}exec {bin} c06-child --seed {} --shard {}/{} --tier {} --budget {budget} --from {from} --to {to}",
        cx.seed,
        cx.shard,
        cx.nshards,
        if cx.thorough { "thorough" } else { "quick" }
    );
    let out = Command::new("sh")
        .arg("-c")
        .arg(&cmdline)
        .stdin(Stdio::null())
        .output();
    let out = match out {
        Ok(o) => o,
        Err(e) => return (None, None, format!("spawn failed: {e}")),
    };
    let stdout = String::from_utf8_lossy(&out.stdout).to_string();
    let mut last_case = None;
    let mut report = None;
    for line in stdout.lines() {
        if let Some(k) = line.strip_prefix("CASE ") {
            last_case = k.trim().parse::<u64>().ok();
        } else if let Some(r) = line.strip_prefix("REPORT ") {
            report = serde_json::from_str::<J>(r).ok();
        }
    }
    let status = format!("{:?} {}", out.status, String::from_utf8_lossy(&out.stderr).chars().take(300).collect::<String>());
    (report, last_case, status)
}

pub fn run(cx: &mut Ctx) {
    let bin = std::env::var("VERIF_BIN").unwrap_or_else(|_| std::env::current_exe().unwrap().to_string_lossy().to_string());
    let rel = std::env::var("VERIF_REL_BIN").ok();
    let total: u64 = if cx.thorough { 400_000 } else { 18_000 };
    if let Some(c) = cx.only_case {
        let (rep, _, status) = spawn_child(cx, &bin, c, c + 1, 120.0);
        match rep {
            Some(r) => merge_json(&mut cx.report, &r),
            None => cx.report.violation(json!({"kind": "abort", "what": format!("case {c}: child died: {status}"), "signature": format!("abort:{c}")})),
        }
        return;
    }
    let chunk: u64 = 1500;
    let mut from = 0u64;
    while from < total && !cx.out_of_time() {
        let to = (from + chunk).min(total);
        let remaining = (cx.budget_s - cx.start.elapsed().as_secs_f64()).max(5.0);
        // every tenth range also runs in the plain release build (debug assertions off)
        let bins: Vec<&str> = match (&rel, (from / chunk) % 10) {
            (Some(r), 0) => vec![bin.as_str(), r.as_str()],
            _ => vec![bin.as_str()],
        };
        let mut next = to;
        for (bi, b) in bins.iter().enumerate() {
            let (rep, last, status) = spawn_child(cx, b, from, to, remaining);
            match rep {
                Some(r) => {
                    if bi == 0 {
                        merge_json(&mut cx.report, &r);
                    } else {
                        // only the violations of the second build are new information
                        for v in r["violations"].as_array().cloned().unwrap_or_default() {
                            cx.report.violation(v);
                        }
                        cx.report.count("texts_rerun_in_plain_release_build", r["evaluations"].as_u64().unwrap_or(0));
                    }
                }
                None => {
                    // the child died: attribute to the announced case, confirm alone
                    match last {
                        Some(k) => {
                            let (rep2, _, status2) = spawn_child(cx, b, k, k + 1, 120.0);
                            if rep2.is_none() {
                                let mut probe_cx_case = k;
                                let _ = &mut probe_cx_case;
                                cx.begin_case(k);
                                cx.report.violation(json!({"kind": "abort", "what": format!("case {k}: the process died twice ({status2}); first: {status}"),
                                    "signature": format!("abort:case{k}")}));
                            } else {
                                cx.report.inconclusive(json!({"why": format!("child died at case {k} but the case alone passes: {status}")}));
                            }
                            next = k + 1;
                        }
                        None => {
                            cx.report.harness_error(json!({"what": format!("child died before announcing a case: {status}")}));
                        }
                    }
                    break;
                }
            }
        }
        from = next;
    }
    cx.report.count("ranges_run", 1);
    // corpus regression inputs, one child each (shard 0); not in the sanitizer build, where the
    // huge-allocation inputs cannot be cut off by an address-space limit
    if cx.shard == 0 && std::env::var("VERIF_ASAN").is_err() {
        for (k, (name, _)) in corpus_texts().iter().enumerate() {
            let case = CORPUS_BASE + k as u64;
            let (rep, _, status) = spawn_child(cx, &bin, case, case + 1, 120.0);
            cx.report.count("corpus_inputs", 1);
            match rep {
                Some(r) => merge_json(&mut cx.report, &r),
                None => {
                    cx.begin_case(case);
                    cx.report.violation(json!({"kind": "abort", "what": format!("corpus input {name}: the process died ({status})"),
                        "signature": format!("abort:corpus:{name}")}));
                }
            }
        }
    }
}
