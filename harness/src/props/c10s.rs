//! C10 — a variable denotes its nearest, most recent binding.
//!
//! Binding structures over the names `a`, `b`: every binding site binds a distinct constant,
//! and after every statement (in every block, arm and function body) each bound name is
//! probed on the real machine against the constant the reference resolver predicts.

use serde_json::json;

use super::common::*;
use super::exec::*;
use super::mini::*;
use crate::ast::*;
use crate::rng::{fnv64, Rng};

#[derive(Clone, Debug)]
enum S {
    /// 0..=8: leaf statements
    Leaf(u8),
    /// `let a: u8 = { BLOCK; value };`
    LetBlock(Vec<S>),
    /// `{ BLOCK };`
    BareBlock(Vec<S>),
    /// `match Some(C) { Some(a) => { BLOCK }, None => {} }`
    MatchSome(Vec<S>),
    /// `match Left/Right(C) { Left(b) => { BLOCK }, Right(a) => { BLOCK } }`
    MatchEither(Vec<S>, bool),
}

const N_LEAF: u8 = 9;

fn leaf_blocks(maxlen: usize) -> Vec<Vec<S>> {
    let mut out: Vec<Vec<S>> = vec![vec![]];
    let mut cur: Vec<Vec<S>> = vec![vec![]];
    for _ in 0..maxlen {
        let mut next = vec![];
        for b in &cur {
            for k in 0..N_LEAF {
                let mut x = b.clone();
                x.push(S::Leaf(k));
                next.push(x);
            }
        }
        out.extend(next.iter().cloned());
        cur = next;
    }
    out
}

/// All statements of nesting depth <= 1 whose nested blocks have at most `inner_len` leaf statements.
fn stmts_depth1(inner_len: usize) -> Vec<S> {
    let mut v: Vec<S> = (0..N_LEAF).map(S::Leaf).collect();
    for b in leaf_blocks(inner_len) {
        v.push(S::LetBlock(b.clone()));
        v.push(S::BareBlock(b.clone()));
        v.push(S::MatchSome(b.clone()));
        v.push(S::MatchEither(b.clone(), false));
        v.push(S::MatchEither(b, true));
    }
    v
}

type Bound = [Option<Ty>; 2];

struct Builder<'a> {
    next_const: u128,
    next_ty: usize,
    use_shape: usize,
    funcs: Vec<Item>,
    g: crate::gen::Gen<'a>,
}

impl<'a> Builder<'a> {
    /// Binding sites rotate through several integer types, so that a name is bound at
    /// different types on different nesting levels (a resolver that mixes levels up then
    /// mistypes the program instead of only reading another constant).
    fn ty(&mut self) -> Ty {
        self.next_ty += 1;
        [Ty::U(8), Ty::U(16), Ty::U(8), Ty::U(32), Ty::U(16)][self.next_ty % 5].clone()
    }
    fn c(&mut self) -> Expr {
        self.next_const = self.next_const % 250 + 1;
        Expr::Int(self.next_const.to_string())
    }
    fn name(i: usize) -> &'static str {
        ["a", "b"][i]
    }
    /// the current value of name `i` (with its type), or a fresh constant of a fresh type
    fn val_or_const(&mut self, i: usize, bound: &Bound) -> (Expr, Ty) {
        match &bound[i] {
            Some(t) => (Expr::var(Self::name(i)), t.clone()),
            None => {
                let t = self.ty();
                (self.c(), t)
            }
        }
    }
    fn probes(&mut self, bound: &Bound, out: &mut Vec<Stmt>) {
        for i in 0..2 {
            if let Some(t) = &bound[i] {
                self.g.probe(&Expr::var(Self::name(i)), t, out, 0);
            }
        }
        // the same references inside compound expressions made of bare variables only
        // (tuple, array, nested): the use site must not matter for what a name denotes
        if let [Some(ta), Some(tb)] = bound {
            self.use_shape += 1;
            let (a, b) = (Expr::var("a"), Expr::var("b"));
            match (self.use_shape % 3, ta == tb) {
                (0, _) => self.g.probe(&Expr::Tuple(vec![a, b]), &Ty::Tuple(vec![ta.clone(), tb.clone()]), out, 0),
                (1, true) => self.g.probe(&Expr::Array(vec![a, b]), &Ty::arr(ta.clone(), 2), out, 0),
                (2, true) => self.g.probe(&Expr::Array(vec![b.clone(), a, b]), &Ty::arr(ta.clone(), 3), out, 0),
                (1, false) => self.g.probe(&Expr::Tuple(vec![b, a.clone(), a]), &Ty::Tuple(vec![tb.clone(), ta.clone(), ta.clone()]), out, 0),
                _ => self.g.probe(&Expr::Tuple(vec![Expr::Tuple(vec![a]), b]), &Ty::Tuple(vec![Ty::Tuple(vec![ta.clone()]), tb.clone()]), out, 0),
            }
        }
    }
    fn block(&mut self, ss: &[S], bound: &mut Bound) -> Vec<Stmt> {
        let mut out = vec![];
        self.probes(bound, &mut out);
        for s in ss {
            self.stmt(s, bound, &mut out);
            self.probes(bound, &mut out);
        }
        out
    }
    fn stmt(&mut self, s: &S, bound: &mut Bound, out: &mut Vec<Stmt>) {
        match s {
            S::Leaf(k) => match k {
                0 | 1 => {
                    let i = *k as usize;
                    let t = self.ty();
                    let e = self.c();
                    out.push(let_(Self::name(i), t.clone(), e));
                    bound[i] = Some(t);
                }
                2 | 3 => {
                    let (x, y) = if *k == 2 { (0, 1) } else { (1, 0) };
                    let (tx, ty) = (self.ty(), self.ty());
                    let e = Expr::Tuple(vec![self.c(), self.c()]);
                    out.push(Stmt::Let(
                        Pat::Tuple(vec![Pat::Id(Self::name(x).into()), Pat::Id(Self::name(y).into())]),
                        Ty::Tuple(vec![tx.clone(), ty.clone()]),
                        e,
                    ));
                    bound[x] = Some(tx);
                    bound[y] = Some(ty);
                }
                4 => {
                    let t = self.ty();
                    let e = Expr::Array(vec![self.c(), self.c()]);
                    out.push(Stmt::Let(Pat::Array(vec![Pat::Id("a".into()), Pat::Ignore]), Ty::arr(t.clone(), 2), e));
                    bound[0] = Some(t);
                }
                5 => {
                    let (t0, tb, ta) = (self.ty(), self.ty(), self.ty());
                    let e = Expr::Tuple(vec![self.c(), Expr::Tuple(vec![self.c(), self.c()])]);
                    out.push(Stmt::Let(
                        Pat::Tuple(vec![Pat::Ignore, Pat::Tuple(vec![Pat::Id("b".into()), Pat::Id("a".into())])]),
                        Ty::Tuple(vec![t0, Ty::Tuple(vec![tb.clone(), ta.clone()])]),
                        e,
                    ));
                    *bound = [Some(ta), Some(tb)];
                }
                6 | 7 => {
                    // let a = b / let b = a: the right-hand side sees only earlier bindings
                    let (dst, src) = if *k == 6 { (0, 1) } else { (1, 0) };
                    let (e, t) = self.val_or_const(src, bound);
                    out.push(let_(Self::name(dst), t.clone(), e));
                    bound[dst] = Some(t);
                }
                _ => {
                    // call: the function body sees only its parameters (which are swapped)
                    let fname = format!("f{}", self.funcs.len());
                    let (x, tx) = self.val_or_const(0, bound);
                    let (y, ty) = self.val_or_const(1, bound);
                    // parameters (b, a) receive the arguments (a, b)
                    let mut fb: Bound = [Some(ty.clone()), Some(tx.clone())];
                    let mut body = vec![];
                    self.probes(&fb, &mut body);
                    let t_inner = self.ty();
                    let inner = self.c();
                    body.push(let_("a", t_inner.clone(), inner));
                    fb[0] = Some(t_inner);
                    self.probes(&fb, &mut body);
                    self.funcs.push(Item::Func(Func {
                        name: fname.clone(),
                        params: vec![("b".into(), tx.clone()), ("a".into(), ty.clone())],
                        ret: Some(tx.clone()),
                        body: Expr::block(body, Some(Expr::var("b"))),
                    }));
                    out.push(let_("b", tx.clone(), Expr::call(CallName::Fn(fname), vec![x, y])));
                    bound[1] = Some(tx);
                }
            },
            S::LetBlock(ss) => {
                let mut inner = bound.clone();
                let stmts = self.block(ss, &mut inner);
                let (last, t) = self.val_or_const(1, &inner);
                out.push(let_("a", t.clone(), Expr::block(stmts, Some(last))));
                bound[0] = Some(t);
            }
            S::BareBlock(ss) => {
                let mut inner = bound.clone();
                let stmts = self.block(ss, &mut inner);
                out.push(Stmt::Expr(Expr::block(stmts, None)));
            }
            S::MatchSome(ss) => {
                let t = self.ty();
                let mut inner = bound.clone();
                inner[0] = Some(t.clone());
                let stmts = self.block(ss, &mut inner);
                let mut none_arm = vec![];
                self.probes(bound, &mut none_arm);
                let scrut = Expr::Some_(Box::new(self.c()));
                out.push(Stmt::Expr(Expr::Match(
                    Box::new(scrut),
                    Box::new([
                        Arm { pat: MatchPat::Some_("a".into(), t), body: Expr::block(stmts, None) },
                        Arm { pat: MatchPat::None_, body: Expr::block(none_arm, None) },
                    ]),
                )));
            }
            S::MatchEither(ss, right) => {
                let (tl, tr) = (self.ty(), self.ty());
                let mut il = bound.clone();
                il[1] = Some(tl.clone());
                let ls = self.block(ss, &mut il);
                let mut ir = bound.clone();
                ir[0] = Some(tr.clone());
                let rs = self.block(ss, &mut ir);
                let c = self.c();
                let scrut = if *right { Expr::Right(Box::new(c)) } else { Expr::Left(Box::new(c)) };
                out.push(Stmt::Expr(Expr::Match(
                    Box::new(scrut),
                    Box::new([
                        Arm { pat: MatchPat::Left("b".into(), tl), body: Expr::block(ls, None) },
                        Arm { pat: MatchPat::Right("a".into(), tr), body: Expr::block(rs, None) },
                    ]),
                )));
            }
        }
    }
}


fn random_structure(rng: &mut Rng, depth: usize, maxlen: usize) -> Vec<S> {
    let n = rng.below(maxlen + 1);
    (0..n)
        .map(|_| {
            if depth == 0 || rng.chance(1, 2) {
                S::Leaf(rng.below(N_LEAF as usize) as u8)
            } else {
                let b = random_structure(rng, depth - 1, maxlen);
                match rng.below(5) {
                    0 => S::LetBlock(b),
                    1 => S::BareBlock(b),
                    2 => S::MatchSome(b),
                    3 => S::MatchEither(b, false),
                    _ => S::MatchEither(b, true),
                }
            }
        })
        .collect()
}

pub fn run(cx: &mut Ctx) {
    // exhaustive part: all top-level sequences of length <= 3 over depth-1 statements whose
    // nested blocks hold at most one leaf statement
    let alphabet = stmts_depth1(1);
    let k = alphabet.len() as u64;
    let total_exhaustive: u64 = 1 + k + k * k + k * k * k;
    // quick tier: lengths <= 2 completely, length 3 in a seed-chosen slice
    let stride: u64 = if cx.thorough { 1 } else { 12 };
    let offset = if cx.thorough { 0 } else { cx.seed % stride };
    let n_random: u64 = if cx.thorough { 12_000 } else { 2_000 };
    let mut idx = 0u64;
    let mut enumerated = 0u64;
    while idx < total_exhaustive + n_random {
        let i = idx;
        idx += 1;
        if i % cx.nshards as u64 != cx.shard as u64 {
            continue;
        }
        if let Some(c) = cx.only_case {
            if c != i {
                continue;
            }
        }
        let in_len3 = i >= 1 + k + k * k && i < total_exhaustive;
        if in_len3 && (i / cx.nshards as u64) % stride != offset && cx.only_case.is_none() {
            continue;
        }
        if cx.out_of_time() {
            break;
        }
        cx.begin_case(i);
        let structure: Vec<S> = if i < total_exhaustive {
            // decode i as a sequence
            let mut j = i;
            let mut len = 0;
            let mut block = 1u64;
            while j >= block {
                j -= block;
                block *= k;
                len += 1;
            }
            let mut seq = vec![];
            for _ in 0..len {
                seq.push(alphabet[(j % k) as usize].clone());
                j /= k;
            }
            enumerated += 1;
            seq
        } else {
            let mut rng = cx.rng(&[i]);
            let depth = 2 + rng.below(3);
            random_structure(&mut rng, depth, 3)
        };
        one_structure(cx, &structure, i);
    }
    cx.report.count("structures_enumerated", enumerated);
    if cx.thorough {
        cx.report.count("exhaustive_slices_completed", 1);
    }
}

fn one_structure(cx: &mut Ctx, structure: &[S], i: u64) {
    let g = prober(cx, false);
    let mut b = Builder { next_const: (i % 200) as u128, next_ty: (i % 5) as usize, use_shape: (i % 3) as usize, funcs: vec![], g };
    let mut bound: Bound = [None, None];
    let stmts = b.block(structure, &mut bound);
    let holes = b.g.prog.holes.clone();
    let mut items = b.funcs;
    drop(b.g);
    let n_probes = holes.len();
    if n_probes == 0 {
        return;
    }
    items.push(main_fn(stmts));
    let prog = Program { items, holes };
    let p = match prepared_from(cx, prog, vec![], vec![], WMap::new(), WMap::new(), &Style::plain()) {
        Ok(p) => p,
        Err(e) => {
            cx.report.harness_error(json!({"what": e}));
            return;
        }
    };
    let Some(built) = build_or_report(cx, &p, false, true) else { return };
    let w = WMap::new();
    let ex = execute(cx, &p, &built, &w, false);
    if !record(cx, &ex.judgement, &p, &w, false, "scope") {
        return;
    }
    if !matches!(ex.judgement, Judgement::Agree { finished: true, .. }) {
        cx.report.violation(json!({"kind": "scope", "what": "a use site does not hold the constant of its nearest, most recent binding (a probe fails)",
            "case": case_json(&p, &w, false), "signature": format!("scope:{:016x}", fnv64(p.text().as_bytes()))}));
        return;
    }
    cx.report.count("use_sites_probed", n_probes as u64);
    cx.report.nontrivial.insert(fnv64(p.text().as_bytes()));
    if cx.report.samples.len() < 2 && structure.len() == 3 && n_probes > 6 {
        cx.report.sample(json!({"program": p.text(), "use_sites": n_probes}));
    }
}
