//! C16 — printing a parsed program and re-parsing it changes nothing.

use serde_json::json;
use simfony::parse::ParseFromStr;

use super::c06::{cap_sizes, example_texts};
use super::common::*;
use super::exec::*;
use crate::ast::*;
use crate::bridge::*;
use crate::gen::{generate, GenCfg};
use crate::mutate_text::*;
use crate::rng::fnv64;

pub fn run(cx: &mut Ctx) {
    let n: u64 = if cx.thorough { 150_000 } else { 4_000 };
    let examples = example_texts();
    for i in cx.cases(n) {
        if cx.out_of_time() {
            break;
        }
        cx.begin_case(i);
        let mut rng = cx.rng(&[i]);
        match i % 4 {
            0 | 1 => {
                // generated program in a random layout; executed when accepted
                let mut cfg = GenCfg::default();
                cfg.size_budget = 60;
                cfg.max_params = (i % 3) as usize;
                let g = generate(rng.clone(), cfg, &cx.golden);
                let style = Style::random(&mut rng);
                let p = match prepare(cx, g, &mut rng, &style) {
                    Ok(p) => p,
                    Err(e) => {
                        cx.report.harness_error(json!({"what": e}));
                        continue;
                    }
                };
                let mut text = p.text().to_string();
                if i % 8 == 1 {
                    // items that the printer has to invent a text for
                    text.push_str("\nmod witness { const A: u8 = 1; }\nmod param {}\n");
                }
                if let Some(printed) = roundtrip(cx, &text, "generated") {
                    if i % 8 != 1 {
                        behaviour(cx, &p, &printed, &mut rng);
                    }
                }
            }
            2 => {
                // token mutants (often ill-typed; the parse tree equality does not need typing)
                let mut cfg = GenCfg::default();
                cfg.size_budget = 30;
                let g = generate(rng.clone(), cfg, &cx.golden);
                let base = match prepare(cx, g, &mut rng, &Style::plain()) {
                    Ok(p) => p.text().to_string(),
                    Err(_) => continue,
                };
                let text = cap_sizes(&mutate_text(&base, &mut rng));
                roundtrip(cx, &text, "mutant");
            }
            _ => {
                let progs: Vec<&(String, String)> = examples.iter().filter(|(n, _)| n.ends_with(".simf")).collect();
                let (_, t) = rng.pick(&progs);
                let text = if i % 8 == 3 { t.clone() } else { cap_sizes(&mutate_text(t, &mut rng)) };
                roundtrip(cx, &text, "example");
            }
        }
    }
}

/// parse -> print -> parse; returns the printed text when everything agreed.
fn roundtrip(cx: &mut Ctx, text: &str, family: &str) -> Option<String> {
    cx.report.evaluations += 1;
    let sig = format!("rt:{:016x}", fnv64(text.as_bytes()));
    let tree = match call(|| simfony::parse::Program::parse_from_str(text)) {
        Outcome::Ok(t) => t,
        Outcome::Err(_) => {
            cx.report.count("texts_not_parsing", 1);
            return None;
        }
        Outcome::Panic(p) => {
            cx.report.inconclusive(json!({"why": format!("parser panicked (C06's subject): {}", p.message), "text": text}));
            return None;
        }
    };
    cx.report.count(&format!("parsed_{family}"), 1);
    let printed = match guard(|| tree.to_string()) {
        Ok(s) => s,
        Err(p) => {
            cx.report.violation(json!({"kind": "print", "what": format!("printing the parse tree panicked: {} @ {}", p.message, p.location), "text": text, "signature": sig}));
            return None;
        }
    };
    let tree2 = match call(|| simfony::parse::Program::parse_from_str(&printed)) {
        Outcome::Ok(t) => t,
        o => {
            cx.report.violation(json!({"kind": "reparse", "what": format!("the printed program does not parse: {}", o.map(|_| ()).brief()),
                "text": text, "printed": printed, "signature": sig}));
            return None;
        }
    };
    if tree != tree2 {
        cx.report.violation(json!({"kind": "tree", "what": "parse(print(parse(t))) differs from parse(t)", "text": text, "printed": printed, "signature": sig}));
        return None;
    }
    // print is a fixed point after one round
    if let Ok(p2) = guard(|| tree2.to_string()) {
        if p2 != printed {
            cx.report.violation(json!({"kind": "fixpoint", "what": "printing the re-parsed tree gives another text", "text": text, "printed": printed, "printed_again": p2, "signature": sig}));
            return None;
        }
    }
    // acceptance
    let a1 = call(|| simfony::TemplateProgram::new(text)).map(|_| ());
    let a2 = call(|| simfony::TemplateProgram::new(printed.as_str())).map(|_| ());
    if a1.is_ok() != a2.is_ok() || a1.is_panic() || a2.is_panic() {
        cx.report.violation(json!({"kind": "acceptance", "what": format!("original: {}; printed: {}", a1.brief(), a2.brief()), "text": text, "printed": printed, "signature": sig}));
        return None;
    }
    cx.report.count(if a1.is_ok() { "pairs_accepted" } else { "pairs_rejected" }, 1);
    cx.report.nontrivial.insert(fnv64(text.as_bytes()));
    if cx.report.samples.len() < 2 && family == "generated" && text.len() < 600 {
        cx.report.sample(json!({"text": text, "printed": printed}));
    }
    if a1.is_ok() {
        Some(printed)
    } else {
        None
    }
}

/// Original and printed text behave alike: same CMR (no debug symbols) and same verdicts.
fn behaviour(cx: &mut Ctx, p: &Prepared, printed: &str, rng: &mut crate::rng::Rng) {
    let sim_args = arguments(&to_sim_map(&p.args, &p.params));
    let (b1, b2) = match (build(p.text(), &sim_args, false), build(printed, &sim_args, false)) {
        (Ok(a), Ok(b)) => (a, b),
        _ => {
            cx.report.inconclusive(json!({"why": "accepted pair does not compile (C03's subject)", "text": p.text()}));
            return;
        }
    };
    let sig = format!("rtbeh:{:016x}", fnv64(p.text().as_bytes()));
    if b1.commit.cmr != b2.commit.cmr {
        cx.report.violation(json!({"kind": "cmr", "what": "original and printed program have different CMRs", "text": p.text(), "printed": printed, "signature": sig}));
        return;
    }
    // the printed text has the same call sites in the same order: run it under the monitors too
    let printed_p = Prepared {
        prog: p.prog.clone(),
        rendered: Rendered { text: printed.to_string(), call_spans: vec![], hole_count: 0 },
        witnesses: p.witnesses.clone(),
        params: p.params.clone(),
        primary: p.primary.clone(),
        args: p.args.clone(),
        calls: p.calls.clone(),
    };
    let (ws, _) = witness_assignments(p, rng, 2);
    for w in ws.iter().take(if cx.thorough { 10 } else { 4 }) {
        let e1 = execute(cx, p, &b1, w, false);
        let e2 = execute(cx, &printed_p, &b2, w, false);
        let ok1 = record(cx, &e1.judgement, p, w, false, "rtrun");
        let ok2 = record(cx, &e2.judgement, &printed_p, w, false, "rtrun-printed");
        if ok1 && ok2 {
            cx.report.count("paired_executions", 1);
        }
    }
}
