//! C01 — the compiled program behaves as the source semantics prescribe.

use serde_json::json;

use super::common::*;
use crate::ast::Style;
use crate::bridge::*;
use crate::gen::{generate, GenCfg};
use crate::interp::Stop;
use crate::pipeline::*;
use crate::rng::fnv64;

pub fn cfg_for(i: u64, rng: &mut crate::rng::Rng) -> GenCfg {
    let mut cfg = GenCfg::default();
    match i % 8 {
        0 => {
            cfg.size_budget = 40;
            cfg.max_stmts = 3;
        }
        1 => {
            cfg.loops = false;
            cfg.size_budget = 120;
        }
        2 => {
            cfg.all_jets = true;
        }
        3 => {
            cfg.ty_depth = 3;
            cfg.size_budget = 70;
        }
        4 => {
            cfg.max_witnesses = 2;
            cfg.ty_depth = 1;
        }
        5 => {
            cfg.panic_pct = 40;
        }
        6 => {
            // no probe literals: asserts and unwraps depend on the witnesses directly, so that the
            // witness assignments split into finishing and panicking runs more evenly
            cfg.probes = false;
            cfg.max_witnesses = 3;
            cfg.ty_depth = 1;
        }
        _ => {}
    }
    cfg.max_depth = 2 + rng.below(3);
    cfg
}

pub fn run(cx: &mut Ctx) {
    let target: u64 = if cx.thorough { 20_000 } else { 400 };
    let mut n = 0;
    for i in cx.cases(target) {
        if cx.out_of_time() {
            break;
        }
        cx.begin_case(i);
        one_program(cx, i);
        n += 1;
    }
    cx.report.count("programs", n);
}

pub fn one_program(cx: &mut Ctx, i: u64) {
    let mut rng = cx.rng(&[i]);
    let cfg = cfg_for(i, &mut rng);
    let g = generate(rng.clone(), cfg, &cx.golden);
    for (k, v) in &g.forms {
        cx.report.count(&format!("form_{k}"), *v as u64);
    }
    let style = if i % 5 == 4 { Style::random(&mut rng) } else { Style::plain() };
    let p = match prepare(cx, g, &mut rng, &style) {
        Ok(p) => p,
        Err(e) => {
            cx.report.harness_error(json!({"case": i, "what": e}));
            return;
        }
    };
    let (assignments, exhaustive) = witness_assignments(&p, &mut rng, if cx.thorough { 24 } else { 6 });
    if exhaustive {
        cx.report.count("programs_exhaustive_witness_space", 1);
    }
    let sim_args = arguments(&to_sim_map(&p.args, &p.params));
    let mut cmrs = vec![];
    for debug in [false, true] {
        let built = match build(p.text(), &sim_args, debug) {
            Ok(b) => b,
            Err(BuildFail::Rejected(e)) => {
                cx.report.count("rejected_by_front_end", 1);
                cx.report.inconclusive(json!({"case": i, "why": "generated program rejected (C04's subject)",
                    "error": last_line(&e), "program": p.text()}));
                return;
            }
            Err(BuildFail::Backend(e)) => {
                cx.report.count("backend_failed", 1);
                cx.report.inconclusive(json!({"case": i, "why": "accepted program failed to compile (C03's subject)",
                    "error": last_line(&e), "program": p.text()}));
                return;
            }
            Err(BuildFail::Panic(pn)) => {
                cx.report.count("build_panicked", 1);
                cx.report.inconclusive(json!({"case": i, "why": "panic while compiling (C03/C06's subject)",
                    "panic": pn.message, "at": pn.location, "program": p.text()}));
                return;
            }
        };
        cmrs.push(built.commit.cmr);
        for (wi, w) in assignments.iter().enumerate() {
            if wi > 8 && cx.start.elapsed().as_secs_f64() > cx.budget_s * 1.5 {
                // time box: the rest of a large exhaustive witness space is skipped (counted)
                cx.report.count("witness_spaces_cut_short", 1);
                break;
            }
            let r = run_reference(cx, &p, w, debug);
            if let Err(Stop::Refuse(why)) = &r.verdict {
                cx.report.inconclusive(json!({"case": i, "why": format!("reference refused: {why}"), "program": p.text()}));
                continue;
            }
            let wv = witness_values(&to_sim_map(w, &p.witnesses));
            let sat = match satisfy(&built.compiled, &wv, None) {
                Outcome::Ok(s) => s,
                other => {
                    cx.report.count("satisfy_failed", 1);
                    cx.report.inconclusive(json!({"case": i, "why": "satisfy failed on a type-correct witness (C05's subject)",
                        "outcome": other.map(|_| ()).brief(), "case_data": case_json(&p, w, debug)}));
                    continue;
                }
            };
            let syms = built.compiled.debug_symbols();
            let rep = examine_redeem(&sat, &built.commit.cmr, &cx.env, Some(&mut cx.jets), if debug { Some(syms) } else { None });
            cx.report.evaluations += 1;
            if !rep.decode.is_ok() {
                cx.report.count("decode_failed", 1);
            }
            let real_ok = match &rep.exec {
                Outcome::Ok(Ok(())) => true,
                Outcome::Ok(Err(_)) => false,
                other => {
                    cx.report.count("exec_panicked", 1);
                    cx.report.inconclusive(json!({"case": i, "why": "bit machine did not return (C02's subject)",
                        "outcome": other.brief(), "case_data": case_json(&p, w, debug)}));
                    continue;
                }
            };
            let ref_ok = r.verdict.is_ok();
            let key = fnv64(format!("{}|{wi}|{debug}", p.text()).as_bytes());
            if real_ok != ref_ok {
                cx.report.violation(json!({
                    "kind": "verdict",
                    "prescribed": verdict_str(&r.verdict),
                    "observed": rep.exec.brief(),
                    "observed_detail": format!("{:?}", rep.exec),
                    "case": case_json(&p, w, debug),
                    "signature": format!("verdict:{:016x}", fnv64(p.text().as_bytes())),
                }));
                continue;
            }
            if let Some(trace) = &rep.trace {
                if let Err(e) = trace_agrees(trace, &rep.exec) {
                    cx.report.harness_error(json!({"case": i, "what": e, "case_data": case_json(&p, w, debug)}));
                    continue;
                }
                cx.report.count("events_observed", trace.events.len() as u64);
                for ev in &trace.events {
                    match ev {
                        crate::tracemachine::Event::Jet { name, .. } => {
                            cx.report.count("events_jet", 1);
                            cx.report.note("jets_observed", name);
                        }
                        crate::tracemachine::Event::Unwrap { .. } => cx.report.count("events_unwrap", 1),
                        crate::tracemachine::Event::Fail => cx.report.count("events_fail", 1),
                        crate::tracemachine::Event::Marker { .. } => cx.report.count("events_marker", 1),
                        crate::tracemachine::Event::OtherAssert { .. } => cx.report.count("events_other_assert", 1),
                        crate::tracemachine::Event::Witness { .. } => cx.report.count("events_witness", 1),
                    }
                }
                match compare_traces(&p, &r.events, &trace.events, if debug { Some(syms) } else { None }) {
                    Ok(()) => {
                        if !trace.events.is_empty() {
                            cx.report.nontrivial.insert(key);
                        }
                    }
                    Err(e) => {
                        cx.report.violation(json!({
                            "kind": "trace",
                            "what": e,
                            "prescribed_verdict": verdict_str(&r.verdict),
                            "case": case_json(&p, w, debug),
                            "signature": format!("trace:{:016x}", fnv64(p.text().as_bytes())),
                        }));
                        continue;
                    }
                }
            } else {
                cx.report.count("no_trace", 1);
            }
            if ref_ok {
                cx.report.count("runs_finished", 1);
            } else {
                cx.report.count("runs_panicked", 1);
            }
            if wi == 0 && !debug {
                cx.report.sample(json!({"program": p.text(), "witness": wmap_json(w, &p.witnesses),
                    "prescribed": verdict_str(&r.verdict), "events": r.events.iter().take(8).map(|e| e.brief()).collect::<Vec<_>>()}));
            }
        }
    }
    if cmrs.len() == 2 {
        cx.report.count("programs_run", 1);
    }
}
