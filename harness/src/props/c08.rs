//! C08 — `fold` consumes list elements first to last, each exactly once.

use serde_json::json;

use super::common::*;
use super::exec::*;
use super::mini::*;
use crate::ast::*;
use crate::rng::{fnv64, Rng};
use crate::vals::*;

fn ji(x: u128) -> Expr {
    Expr::Int(x.to_string())
}

/// `fn step(elem: E, acc: u64) -> u64` — order-sensitive: acc * 31 + key(elem).
/// Every application shows up in the event log through its jet calls.
fn step_fn(name: &str, ety: &Ty, panic_at_key: Option<u128>) -> Func {
    let mut stmts = vec![];
    // key(elem): a u64 computed from the element
    let key: Expr = match ety {
        Ty::U(8) => Expr::jet("left_pad_low_8_64", vec![Expr::var("elem")]),
        Ty::U(1) => Expr::jet("left_pad_low_1_64", vec![Expr::var("elem")]),
        // element type == accumulator type: the two parameters can only be told apart by position
        Ty::U(64) => Expr::var("elem"),
        Ty::U(256) => {
            stmts.push(Stmt::Let(
                Pat::Tuple(vec![
                    Pat::Tuple(vec![Pat::Ignore, Pat::Ignore]),
                    Pat::Tuple(vec![Pat::Ignore, Pat::Id("lo".into())]),
                ]),
                Ty::Tuple(vec![Ty::Tuple(vec![Ty::U(64), Ty::U(64)]), Ty::Tuple(vec![Ty::U(64), Ty::U(64)])]),
                Expr::call(CallName::Cast(Ty::U(256)), vec![Expr::var("elem")]),
            ));
            Expr::var("lo")
        }
        Ty::Tuple(ts) if ts.len() == 2 => {
            stmts.push(Stmt::Let(
                Pat::Tuple(vec![Pat::Id("a".into()), Pat::Id("b".into())]),
                ety.clone(),
                Expr::var("elem"),
            ));
            stmts.push(let_("bb", Ty::U(1), Expr::call(CallName::Cast(Ty::Bool), vec![Expr::var("b")])));
            Expr::jet(
                "add_64",
                vec![
                    Expr::jet("left_pad_low_8_64", vec![Expr::var("a")]),
                    Expr::jet("left_pad_low_1_64", vec![Expr::var("bb")]),
                ],
            )
        }
        _ => ji(1), // unit elements: count them
    };
    if let Ty::Tuple(ts) = ety {
        if ts.len() == 2 {
            // add_64 returns (carry, sum)
            stmts.push(Stmt::Let(
                Pat::Tuple(vec![Pat::Ignore, Pat::Id("k".into())]),
                Ty::Tuple(vec![Ty::Bool, Ty::U(64)]),
                key.clone(),
            ));
        } else {
            stmts.push(let_("k", Ty::U(64), key.clone()));
        }
    } else {
        stmts.push(let_("k", Ty::U(64), key.clone()));
    }
    if let Some(p) = panic_at_key {
        // panics exactly when the element's key equals p
        stmts.push(assert_(Expr::Match(
            Box::new(Expr::jet("eq_64", vec![Expr::var("k"), ji(p)])),
            Box::new([
                Arm { pat: MatchPat::True, body: Expr::Bool(false) },
                Arm { pat: MatchPat::False, body: Expr::Bool(true) },
            ]),
        )));
    }
    stmts.push(Stmt::Let(
        Pat::Tuple(vec![Pat::Ignore, Pat::Id("lo".into())]),
        Ty::Tuple(vec![Ty::U(64), Ty::U(64)]),
        Expr::call(CallName::Cast(Ty::U(128)), vec![Expr::jet("multiply_64", vec![Expr::var("acc"), ji(31)])]),
    ));
    stmts.push(Stmt::Let(
        Pat::Tuple(vec![Pat::Ignore, Pat::Id("s".into())]),
        Ty::Tuple(vec![Ty::Bool, Ty::U(64)]),
        Expr::jet("add_64", vec![Expr::var("lo"), Expr::var("k")]),
    ));
    Func {
        name: name.into(),
        params: vec![("elem".into(), ety.clone()), ("acc".into(), Ty::U(64))],
        ret: Some(Ty::U(64)),
        body: Expr::block(stmts, Some(Expr::var("s"))),
    }
}

fn elem_key(v: &Val) -> u128 {
    match v {
        Val::U(256, x) => x.low_u128() & 0xffff_ffff_ffff_ffff,
        Val::U(_, x) => x.low_u128(),
        Val::Tuple(vs) if vs.len() == 2 => vs[0].as_u128() + vs[1].as_u128(),
        _ => 1,
    }
}

pub fn run(cx: &mut Ctx) {
    let max_bound = if cx.thorough { 512 } else { 256 };
    let mut cases: Vec<(usize, usize)> = vec![];
    let mut b = 2;
    while b <= max_bound {
        let all = if cx.thorough { b <= 512 } else { b <= 256 };
        if all {
            for k in 0..b {
                cases.push((b, k));
            }
        } else {
            let mut ks = vec![0usize, 1, b - 1, b - 2];
            let mut j = 2;
            while j < b {
                ks.extend([j - 1, j, j + 1]);
                j *= 2;
            }
            ks.retain(|k| *k < b);
            ks.sort();
            ks.dedup();
            for k in ks {
                cases.push((b, k));
            }
        }
        b *= 2;
    }
    let etys = [Ty::U(8), Ty::U(64), Ty::U(1), Ty::Tuple(vec![Ty::U(8), Ty::Bool]), Ty::U(64), Ty::unit(), Ty::U(256)];
    let variants = if cx.thorough { 6 } else { 3 };
    for (ci, (bound, len)) in cases.iter().enumerate() {
        if ci % cx.nshards != cx.shard {
            continue;
        }
        if let Some(c) = cx.only_case {
            if c != ci as u64 {
                continue;
            }
        }
        if cx.out_of_time() {
            break;
        }
        cx.begin_case(ci as u64);
        for v in 0..variants {
            let mut rng = cx.rng(&[ci as u64, v]);
            let ety = if v == 0 { Ty::U(8) } else { rng.pick(&etys).clone() };
            let source = (ci + v as usize) % 3;
            let panicking = v % 3 == 2 && *len > 0;
            one_fold(cx, *bound, *len, &ety, source, panicking, &mut rng);
            if v == 0 && (*len % 3 == 1 || *bound <= 8) {
                unit_fold(cx, *bound, *len, &mut rng);
            }
        }
        cx.report.note("bounds", &bound.to_string());
    }
}

fn one_fold(cx: &mut Ctx, bound: usize, len: usize, ety: &Ty, source: usize, panicking: bool, rng: &mut Rng) {
    let elems: Vec<Val> = (0..len).map(|_| random_val(ety, rng)).collect();
    let list_val = Val::List(elems.clone(), bound);
    let lty = Ty::list(ety.clone(), bound);
    let panic_idx = if panicking { Some(rng.below(len)) } else { None };
    let panic_key = panic_idx.map(|i| elem_key(&elems[i]));
    let f = step_fn("step", ety, panic_key);
    let mut items = vec![Item::Func(f)];
    let mut witnesses = vec![];
    let mut primary = WMap::new();
    let list_expr = match source {
        0 => val_to_expr(&list_val, &mut |_| IntStyle::Dec),
        1 => {
            witnesses.push(("L".to_string(), lty.clone()));
            primary.insert("L".into(), list_val.clone());
            Expr::Witness("L".into())
        }
        _ => {
            items.push(Item::Func(Func {
                name: "make".into(),
                params: vec![("seed".into(), Ty::U(8))],
                ret: Some(lty.clone()),
                body: Expr::block(
                    vec![],
                    Some(Expr::Match(
                        Box::new(Expr::jet("eq_8", vec![Expr::var("seed"), ji(3)])),
                        Box::new([
                            Arm { pat: MatchPat::True, body: val_to_expr(&list_val, &mut |_| IntStyle::Dec) },
                            Arm { pat: MatchPat::False, body: Expr::List(vec![]) },
                        ]),
                    )),
                ),
            }));
            Expr::call(CallName::Fn("make".into()), vec![ji(3)])
        }
    };
    let init = rng.next() as u128 & 0xffff;
    let mut stmts = vec![let_(
        "r",
        Ty::U(64),
        Expr::call(CallName::Fold("step".into(), bound), vec![list_expr, ji(init)]),
    )];
    let mut g = prober(cx, false);
    g.probe(&Expr::var("r"), &Ty::U(64), &mut stmts, 0);
    let holes = g.prog.holes.clone();
    drop(g);
    items.push(main_fn(stmts));
    let prog = Program { items, holes };
    let p = match prepared_from(cx, prog, witnesses.clone(), vec![], primary.clone(), WMap::new(), &Style::plain()) {
        Ok(p) => p,
        Err(e) => {
            cx.report.harness_error(json!({"what": e}));
            return;
        }
    };
    for debug in [false, true] {
        if debug && bound > 64 {
            continue;
        }
        let Some(built) = build_or_report(cx, &p, debug, true) else { return };
        let mut ws = vec![primary.clone()];
        if source == 1 {
            // other lists through the same compiled program: shorter, longer, permuted
            for _ in 0..3 {
                let l2 = rng.below(bound);
                let mut m = WMap::new();
                m.insert("L".into(), Val::List((0..l2).map(|_| random_val(ety, rng)).collect(), bound));
                ws.push(m);
            }
            if len >= 2 {
                let mut e2 = elems.clone();
                e2.swap(0, len - 1);
                let mut m = WMap::new();
                m.insert("L".into(), Val::List(e2, bound));
                ws.push(m);
            }
        }
        for (wi, w) in ws.iter().enumerate() {
            let ex = execute(cx, &p, &built, w, debug);
            if !record(cx, &ex.judgement, &p, w, debug, &format!("fold:{bound}:{len}")) {
                continue;
            }
            let finished = matches!(ex.judgement, Judgement::Agree { finished: true, .. });
            if wi == 0 {
                // the oracle in closed form, independent of the interpreter's fold
                let mut acc = init as u64;
                let mut should_panic = false;
                for e in &elems {
                    let k = elem_key(e);
                    if panic_key == Some(k) {
                        should_panic = true;
                        break;
                    }
                    acc = acc.wrapping_mul(31).wrapping_add(k as u64);
                }
                if finished == should_panic {
                    cx.report.violation(json!({"kind": "fold", "what": format!("fold over {len} of <{bound} elements: closed form says panic = {should_panic}, run finished = {finished}"),
                        "case": case_json(&p, w, debug), "signature": format!("fold-cf:{bound}:{len}:{}", render_ty(ety))}));
                    continue;
                }
                if !should_panic {
                    let got = p.prog.holes.first().and_then(|h| h.val.clone());
                    if got != Some(Val::u(64, acc as u128)) {
                        cx.report.harness_error(json!({"what": format!("interpreter fold result {got:?} differs from closed form {acc}")}));
                        continue;
                    }
                }
                cx.report.count(if should_panic { "folds_panicking" } else { "folds_finishing" }, 1);
            }
            cx.report.count("fold_applications_observed", ex.reference.events.iter().filter(|e| matches!(e, crate::interp::REvent::Jet { name, .. } if name == "multiply_64")).count() as u64);
            cx.report.nontrivial.insert(fnv64(format!("{}|{wi}|{debug}", p.text()).as_bytes()));
        }
    }
    if cx.report.samples.len() < 2 && len >= 2 && len <= 5 {
        cx.report.sample(json!({"program": p.text(), "bound": bound, "length": len}));
    }
    cx.report.count(&format!("source_{}", ["literal", "witness", "computed"][source]), 1);
}

/// A fold whose accumulator is the unit type: nothing is threaded through, but the step function
/// must still be applied to every element (it asserts that the element differs from a key), so
/// the run panics exactly when the list holds the key.
fn unit_fold(cx: &mut Ctx, bound: usize, len: usize, rng: &mut Rng) {
    let elems: Vec<Val> = (0..len).map(|_| Val::u(8, rng.below(200) as u128)).collect();
    let key: u128 = if len > 0 && rng.chance(1, 2) { elems[rng.below(len)].as_u128() } else { 250 };
    let should_panic = elems.iter().any(|e| e.as_u128() == key);
    let lty = Ty::list(Ty::U(8), bound);
    let step = Func {
        name: "check".into(),
        params: vec![("elem".into(), Ty::U(8)), ("acc".into(), Ty::unit())],
        ret: Some(Ty::unit()),
        body: Expr::block(
            vec![assert_(Expr::Match(
                Box::new(Expr::jet("eq_8", vec![Expr::var("elem"), ji(key)])),
                Box::new([
                    Arm { pat: MatchPat::True, body: Expr::Bool(false) },
                    Arm { pat: MatchPat::False, body: Expr::Bool(true) },
                ]),
            ))],
            Some(Expr::var("acc")),
        ),
    };
    let witnesses = vec![("L".to_string(), lty.clone())];
    let mut primary = WMap::new();
    primary.insert("L".into(), Val::List(elems.clone(), bound));
    let stmts = vec![let_("r", Ty::unit(), Expr::call(CallName::Fold("check".into(), bound), vec![Expr::Witness("L".into()), Expr::Tuple(vec![])]))];
    let prog = Program { items: vec![Item::Func(step), main_fn(stmts)], holes: vec![] };
    let p = match prepared_from(cx, prog, witnesses, vec![], primary.clone(), WMap::new(), &Style::plain()) {
        Ok(p) => p,
        Err(e) => {
            cx.report.harness_error(json!({"what": e}));
            return;
        }
    };
    for debug in [false, true] {
        let Some(built) = build_or_report(cx, &p, debug, true) else { return };
        let ex = execute(cx, &p, &built, &primary, debug);
        if !record(cx, &ex.judgement, &p, &primary, debug, &format!("fold-unit:{bound}:{len}")) {
            continue;
        }
        let finished = matches!(ex.judgement, Judgement::Agree { finished: true, .. });
        if finished == should_panic {
            cx.report.violation(json!({"kind": "fold", "what": format!("fold with a unit accumulator over {len} of <{bound} elements: closed form says panic = {should_panic}, run finished = {finished}"),
                "case": case_json(&p, &primary, debug), "signature": format!("fold-unit:{bound}:{len}")}));
        } else {
            cx.report.count("unit_accumulator_folds", 1);
            cx.report.nontrivial.insert(crate::rng::fnv64(format!("unit|{bound}|{len}|{debug}|{key}").as_bytes()));
        }
    }
}
