//! FFI-free slice of the workloads for the Miri tier (undefined-behaviour interpreter):
//! value / type printers and parsers, structural types and values, reconstruct, and the
//! pipeline text -> new -> instantiate -> commit -> satisfy -> encode -> decode for jet-free
//! programs. No Elements environment, no jets, no Bit Machine run (those cross into C).

use serde_json::json;
use simfony::parse::ParseFromStr;
use simfony::types::StructuralType;
use simfony::value::StructuralValue;
use simfony::{ResolvedType, Value};

use crate::ast::*;
use crate::bridge::*;
use crate::gen::{generate, GenCfg};
use crate::golden::Golden;
use crate::layout::*;
use crate::rng::Rng;
use crate::vals::*;

pub fn run(seed: u64, count: u64) {
    install_panic_hook();
    let golden = Golden::load();
    let mut problems: Vec<String> = vec![];
    let mut done = 0u64;
    for i in 0..count {
        let mut rng = Rng::derive(seed, &[0x4d495249, i]);
        match i % 3 {
            0 => {
                // C15 / C07 core on one random value
                let d = rng.below(3);
                let ty = random_ty(&mut rng, d, 8);
                let v = random_val(&ty, &mut rng);
                let sty = to_sim_ty(&ty);
                let sv = to_sim_val(&v, &ty);
                let text = sv.to_string();
                match call(|| Value::parse_from_str(&text, &sty)) {
                    Outcome::Ok(v2) if v2 == sv => {}
                    o => problems.push(format!("value round trip of `{text}`: {}", o.map(|x| x.to_string()).brief())),
                }
                match call(|| ResolvedType::parse_from_str(&sty.to_string())) {
                    Outcome::Ok(t2) if t2 == sty => {}
                    o => problems.push(format!("type round trip of `{sty}`: {}", o.map(|x| x.to_string()).brief())),
                }
                let st = StructuralType::from(&sty);
                if tytree_of(st.as_ref()) != layout_type(&ty) {
                    problems.push(format!("type layout of {sty}"));
                }
                let stv = StructuralValue::from(&sv);
                let simv: &simfony::simplicity::Value = stv.as_ref();
                if tree_of(simv.as_ref()) != layout_value(&v) {
                    problems.push(format!("value layout of {text}"));
                }
                if Value::reconstruct(&stv, &sty) != Some(sv) {
                    problems.push(format!("reconstruct of {text}"));
                }
            }
            _ => {
                // jet-free program through the whole FFI-free pipeline
                let mut cfg = GenCfg::default();
                cfg.jets = false;
                cfg.probes = false;
                cfg.size_budget = 25;
                cfg.max_depth = 2;
                cfg.max_stmts = 3;
                cfg.ty_depth = 1;
                cfg.max_list = 4;
                cfg.loops = i % 6 == 1;
                let g = generate(rng.clone(), cfg, &golden);
                let text = render_plain(&g.prog);
                let args: Vec<(String, simfony::Value)> = vec![];
                match call(|| simfony::CompiledProgram::new(text.as_str(), arguments(&args), i % 2 == 0)) {
                    Outcome::Ok(c) => {
                        let commit = c.commit();
                        let w: Vec<(String, simfony::Value)> = g
                            .witnesses
                            .iter()
                            .map(|(n, t)| (n.clone(), to_sim_val(&random_val(t, &mut rng), t)))
                            .collect();
                        match call(|| c.satisfy(witness_values(&w))) {
                            Outcome::Ok(s) => {
                                let (p, wit) = s.redeem().encode_to_vec();
                                match decode_redeem(&p, &wit) {
                                    Outcome::Ok(d) => {
                                        if d.cmr() != commit.cmr() {
                                            problems.push(format!("decoded CMR differs for\n{text}"));
                                        }
                                    }
                                    o => problems.push(format!("decode: {} for\n{text}", o.map(|_| ()).brief())),
                                }
                            }
                            o => problems.push(format!("satisfy: {} for\n{text}", o.map(|_| ()).brief())),
                        }
                    }
                    Outcome::Err(e) => problems.push(format!("generated jet-free program rejected: {}\n{text}", last_line(&e))),
                    Outcome::Panic(p) => problems.push(format!("panic {} @ {} for\n{text}", p.message, p.location)),
                }
            }
        }
        done += 1;
    }
    println!("MIRI-REPORT {}", json!({"done": done, "problems": problems}));
}
