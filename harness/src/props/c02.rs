//! C02 — what `satisfy` returns spends the committed CMR.

use serde_json::json;

use super::common::*;
use super::mini::*;
use crate::ast::*;
use crate::bridge::*;
use crate::gen::{generate, GenCfg};
use crate::pipeline::*;
use crate::rng::{fnv64, Rng};
use crate::vals::*;

/// Judge one (compiled program, witness map) pair. Returns false when a violation was recorded.
pub fn judge_redeem(
    cx: &mut Ctx,
    text: &str,
    built: &Compiled,
    wv: &simfony::WitnessValues,
    wjson: serde_json::Value,
    debug: bool,
    sig: &str,
) -> bool {
    let sat = match satisfy(&built.compiled, wv, None) {
        Outcome::Ok(s) => s,
        Outcome::Err(_) => {
            // satisfy may reject (C05 judges whether it should); nothing to spend
            cx.report.count("satisfy_rejected", 1);
            return true;
        }
        Outcome::Panic(p) => {
            cx.report.violation(json!({"kind": "panic", "what": format!("satisfy panicked: {} @ {}", p.message, p.location),
                "program": text, "witness": wjson, "debug_symbols": debug, "signature": format!("{sig}:satisfy-panic")}));
            return false;
        }
    };
    let rep = examine_redeem(&sat, &built.commit.cmr, &cx.env, None, None);
    cx.report.evaluations += 1;
    cx.report.count("witness_nodes_walked", rep.n_witness_nodes as u64);
    let mut problems: Vec<String> = rep.m6.clone();
    match &rep.decode {
        Outcome::Ok(()) => {
            if rep.decoded_cmr != Some(built.commit.cmr) {
                problems.push(format!(
                    "decoded program has CMR {} instead of the committed {}",
                    rep.decoded_cmr.map(|c| hex(&c)).unwrap_or_default(),
                    hex(&built.commit.cmr)
                ));
            }
        }
        o => problems.push(format!("the encoding is not accepted by the decoder: {}", o.brief())),
    }
    match &rep.exec {
        Outcome::Ok(Ok(())) => cx.report.count("runs_succeeded", 1),
        Outcome::Ok(Err(_)) => cx.report.count("runs_failed", 1),
        o => problems.push(format!("executing the program panicked the Bit Machine: {}", o.brief())),
    }
    if problems.is_empty() {
        true
    } else {
        cx.report.violation(json!({"kind": "redeem", "what": problems.join("; "), "program": text, "witness": wjson,
            "debug_symbols": debug, "signature": sig}));
        false
    }
}

/// Programs in which a witness (or part of it) is never inspected.
fn uninspected_program(rng: &mut Rng, ty: &Ty, shape: usize) -> (Program, Vec<(String, Ty)>) {
    let w = || Expr::Witness("A".into());
    let tys = ty.clone();
    let mut items = vec![];
    let stmts: Vec<Stmt> = match shape {
        0 => vec![let_("x", tys.clone(), w())],
        1 => vec![Stmt::Let(Pat::Ignore, tys.clone(), w())],
        2 => vec![let_("p", Ty::Tuple(vec![tys.clone(), Ty::U(8)]), Expr::Tuple(vec![w(), Expr::Int("1".into())]))],
        3 => {
            // payload of an arm that ignores it
            vec![let_(
                "r",
                Ty::U(8),
                Expr::Match(
                    Box::new(Expr::Some_(Box::new(w()))),
                    Box::new([
                        Arm { pat: MatchPat::None_, body: Expr::Int("0".into()) },
                        Arm { pat: MatchPat::Some_("v".into(), tys.clone()), body: Expr::Int("1".into()) },
                    ]),
                ),
            )]
        }
        4 => {
            items.push(Item::Func(Func {
                name: "drop_it".into(),
                params: vec![("v".into(), tys.clone())],
                ret: Some(Ty::U(8)),
                body: Expr::block(vec![], Some(Expr::Int("7".into()))),
            }));
            vec![let_("r", Ty::U(8), Expr::call(CallName::Fn("drop_it".into()), vec![w()]))]
        }
        5 => {
            let vars = cast_variants(ty);
            let target = rng.pick(&vars).clone();
            vec![
                let_("x", tys.clone(), w()),
                let_("y", target, Expr::call(CallName::Cast(tys.clone()), vec![Expr::var("x")])),
            ]
        }
        6 => vec![let_("x", Ty::either(tys.clone(), Ty::U(8)), Expr::Left(Box::new(w())))],
        7 => vec![let_("x", tys.clone(), Expr::call(CallName::Dbg, vec![w()]))],
        8 => vec![
            let_("x", Ty::arr(tys.clone(), 2), Expr::Array(vec![w(), Expr::Witness("B".into())])),
            Stmt::Let(Pat::Array(vec![Pat::Ignore, Pat::Id("b".into())]), Ty::arr(tys.clone(), 2), Expr::var("x")),
        ],
        _ => {
            // half inspected: a pair whose first component is used
            vec![
                let_("x", Ty::Tuple(vec![Ty::U(8), tys.clone()]), Expr::Witness("A".into())),
                Stmt::Let(
                    Pat::Tuple(vec![Pat::Id("a".into()), Pat::Ignore]),
                    Ty::Tuple(vec![Ty::U(8), tys.clone()]),
                    Expr::var("x"),
                ),
                assert_(Expr::jet("eq_8", vec![Expr::var("a"), Expr::var("a")])),
            ]
        }
    };
    let wty = if shape >= 9 { Ty::Tuple(vec![Ty::U(8), tys.clone()]) } else { tys.clone() };
    let mut ws = vec![("A".to_string(), wty)];
    if shape == 8 {
        ws.push(("B".to_string(), tys));
    }
    items.push(main_fn(stmts));
    (Program { items, holes: vec![] }, ws)
}

pub fn run(cx: &mut Ctx) {
    examples(cx);
    // corpus regression inputs (programs with a witness file), shard 0; a file named
    // `*_succeeds.simf` must also run successfully with its witness
    if cx.shard == 0 && cx.only_case.map_or(true, |c| c == CORPUS_CASE) {
        cx.begin_case(CORPUS_CASE);
        for (name, text, wv) in corpus_with_witness() {
            for debug in [false, true] {
                let Ok(built) = build(&text, &simfony::Arguments::default(), debug) else {
                    cx.report.harness_error(json!({"what": format!("corpus input {name} does not compile")}));
                    continue;
                };
                let sig = format!("redeem:corpus:{name}");
                judge_redeem(cx, &format!("corpus/{name}"), &built, &wv, json!(name), debug, &sig);
                if name.ends_with("_succeeds.simf") {
                    cx.report.evaluations += 1;
                    let ok = match satisfy(&built.compiled, &wv, None) {
                        Outcome::Ok(sat) => {
                            let (pb, wb) = sat.redeem().encode_to_vec();
                            match decode_redeem(&pb, &wb) {
                                Outcome::Ok(d) => matches!(exec_redeem(&d, &cx.env), Outcome::Ok(Ok(()))),
                                _ => false,
                            }
                        }
                        _ => false,
                    };
                    if !ok {
                        cx.report.violation(json!({"kind": "corpus", "what": format!("corpus/{name} (debug = {debug}) must run successfully with its witness and does not"),
                            "program": text, "signature": format!("corpus-verdict:{name}")}));
                    }
                }
                cx.report.count("corpus_inputs", 1);
            }
        }
    }
    if cx.only_case == Some(CORPUS_CASE) {
        return;
    }
    let n: u64 = if cx.thorough { 40_000 } else { 1_200 };
    for i in cx.cases(n) {
        if cx.out_of_time() {
            break;
        }
        cx.begin_case(i);
        let mut rng = cx.rng(&[i]);
        if i % 2 == 0 {
            // uninspected-witness family
            let d = rng.below(3);
            let ty = random_ty(&mut rng, d, 16);
            let shape = (i / 2 % 10) as usize;
            let (mut prog, ws) = uninspected_program(&mut rng, &ty, shape);
            prog.number_calls();
            let text = render_plain(&prog);
            cx.report.count(&format!("uninspected_shape_{shape}"), 1);
            run_program(cx, &text, &ws, &mut rng, "uninspected");
        } else {
            let mut cfg = GenCfg::default();
            cfg.max_witnesses = 8;
            cfg.size_budget = 60;
            cfg.all_jets = i % 6 == 1;
            let g = generate(rng.clone(), cfg, &cx.golden);
            let p = match prepare(cx, g, &mut rng, &Style::plain()) {
                Ok(p) => p,
                Err(e) => {
                    cx.report.harness_error(json!({"what": e}));
                    continue;
                }
            };
            let ws = p.witnesses.clone();
            let text = p.text().to_string();
            run_program(cx, &text, &ws, &mut rng, "generated");
        }
    }
}

fn run_program(cx: &mut Ctx, text: &str, ws: &[(String, Ty)], rng: &mut Rng, family: &str) {
    let mut cmrs = vec![];
    for debug in [false, true] {
        let built = match build(text, &simfony::Arguments::default(), debug) {
            Ok(b) => b,
            Err(BuildFail::Panic(p)) => {
                cx.report.inconclusive(json!({"why": format!("compilation panicked (C03/C06's subject): {}", p.message), "program": text}));
                return;
            }
            Err(BuildFail::Rejected(e)) | Err(BuildFail::Backend(e)) => {
                cx.report.inconclusive(json!({"why": format!("program not accepted (C03/C04's subject): {}", last_line(&e)), "program": text}));
                return;
            }
        };
        cmrs.push(built.commit.cmr);
        // maps 4..6 are partial (satisfy accepts a map that leaves names out; whatever it then
        // returns must still spend the CMR): without the last name, the first name, a random subset
        let n_maps = if ws.is_empty() { 4 } else { 7 };
        for k in 0..n_maps {
            let keep: Vec<bool> = (0..ws.len())
                .map(|j| match k {
                    4 => j + 1 != ws.len(),
                    5 => j != 0,
                    6 => rng.chance(1, 2),
                    _ => true,
                })
                .collect();
            if k >= 4 {
                cx.report.count("partial_maps", 1);
            }
            let m: WMap = ws
                .iter()
                .enumerate()
                .filter(|(j, _)| keep[*j])
                .map(|(_, (n, t))| {
                    let v = match k {
                        0 => boundary_vals(t)[0].clone(),
                        1 => boundary_vals(t).last().unwrap().clone(),
                        _ => random_val(t, rng),
                    };
                    (n.clone(), v)
                })
                .collect();
            let wv = witness_values(&to_sim_map(&m, ws));
            let sig = format!("redeem:{family}:{:016x}", fnv64(text.as_bytes()));
            if judge_redeem(cx, text, &built, &wv, wmap_json(&m, ws), debug, &sig) {
                cx.report.nontrivial.insert(fnv64(format!("{text}|{k}|{debug}").as_bytes()));
            }
            if k == 2 && !debug && cx.report.samples.len() < 3 && family == "uninspected" {
                cx.report.sample(json!({"program": text, "witness": wmap_json(&m, ws)}));
            }
        }
    }
    // one parsed template instantiated three times (debug off, on, off): every instance must be
    // as self-consistent as a freshly compiled one, and equal flags must give equal CMRs
    if let Outcome::Ok(tpl) = new_template(text) {
        for (round, debug) in [false, true, false].into_iter().enumerate() {
            let Outcome::Ok(compiled) = instantiate(&tpl, &simfony::Arguments::default(), debug) else { continue };
            let Outcome::Ok(info) = commit(&compiled) else { continue };
            if info.cmr != cmrs[debug as usize] {
                cx.report.violation(json!({"kind": "cmr", "what": format!("instantiation #{} of one template (debug = {debug}) commits to another CMR than a fresh compilation", round + 1),
                    "program": text, "signature": format!("redeem:{family}:reinst:{:016x}", fnv64(text.as_bytes()))}));
                break;
            }
            let built = Compiled { template: tpl.clone(), compiled, commit: info };
            let m: WMap = ws.iter().map(|(n, t)| (n.clone(), random_val(t, rng))).collect();
            let wv = witness_values(&to_sim_map(&m, ws));
            let sig = format!("redeem:{family}:reinst:{:016x}", fnv64(text.as_bytes()));
            judge_redeem(cx, text, &built, &wv, wmap_json(&m, ws), debug, &sig);
            cx.report.count("template_reinstantiations", 1);
        }
    }
    cx.report.count(&format!("programs_{family}"), 1);
}

/// The shipped examples with their witness / argument files.
fn examples(cx: &mut Ctx) {
    if cx.shard != 0 || cx.only_case.is_some() {
        return;
    }
    let dir = std::path::Path::new("/repo/examples");
    let mut names: Vec<String> = std::fs::read_dir(dir)
        .map(|d| {
            d.filter_map(|e| e.ok())
                .map(|e| e.file_name().to_string_lossy().to_string())
                .collect()
        })
        .unwrap_or_default();
    names.sort();
    for f in names.iter().filter(|n| n.ends_with(".simf")) {
        let stem = f.trim_end_matches(".simf");
        let text = std::fs::read_to_string(dir.join(f)).unwrap_or_default();
        let args = names
            .iter()
            .find(|n| n.starts_with(stem) && n.ends_with(".args"))
            .and_then(|n| std::fs::read_to_string(dir.join(n)).ok())
            .and_then(|s| serde_json::from_str::<simfony::Arguments>(&s).ok())
            .unwrap_or_default();
        let mut wits: Vec<(String, simfony::WitnessValues)> = vec![("<empty>".into(), simfony::WitnessValues::default())];
        for n in names.iter().filter(|n| n.starts_with(&format!("{stem}.")) && n.ends_with(".wit")) {
            if let Some(w) = std::fs::read_to_string(dir.join(n))
                .ok()
                .and_then(|s| serde_json::from_str::<simfony::WitnessValues>(&s).ok())
            {
                wits.push((n.clone(), w));
            }
        }
        for debug in [false, true] {
            let built = match build(&text, &args, debug) {
                Ok(b) => b,
                Err(_) => {
                    cx.report.inconclusive(json!({"why": "shipped example does not compile", "file": f}));
                    continue;
                }
            };
            for (wn, w) in &wits {
                let sig = format!("redeem:example:{f}:{wn}");
                if judge_redeem(cx, &format!("examples/{f}"), &built, w, json!(wn), debug, &sig) {
                    cx.report.nontrivial.insert(fnv64(format!("{f}|{wn}|{debug}").as_bytes()));
                }
                cx.report.count("example_runs", 1);
            }
        }
    }
}
