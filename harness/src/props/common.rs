//! Shared worker machinery: the per-worker context, running a generated program through the
//! reference interpreter and through the real pipeline, and the trace checker (M5).

use std::collections::{BTreeMap, HashMap, HashSet};

use serde_json::{json, Value as J};
use simfony::debug::{DebugSymbols, TrackedCallName};
use simfony::{CompiledProgram, TemplateProgram};

use crate::ast::*;
use crate::bridge::*;
use crate::gen::Generated;
use crate::golden::Golden;
use crate::interp::{Interp, Mode, REvent, Stop};
use crate::pipeline::*;
use crate::rng::{fnv64, Rng};
use crate::tracemachine::{Event, Stop as TStop, Trace};
use crate::vals::*;

pub struct Ctx {
    pub prop: String,
    pub seed: u64,
    pub shard: usize,
    pub nshards: usize,
    pub thorough: bool,
    pub golden: Golden,
    pub jets: JetRunner,
    pub env: Env,
    pub report: Report,
    pub budget_s: f64,
    pub start: std::time::Instant,
    /// replay mode: run only this case
    pub only_case: Option<u64>,
}

impl Ctx {
    pub fn rng(&self, labels: &[u64]) -> Rng {
        let mut l = vec![fnv64(self.prop.as_bytes()), self.shard as u64];
        l.extend_from_slice(labels);
        Rng::derive(self.seed, &l)
    }
    pub fn out_of_time(&self) -> bool {
        self.start.elapsed().as_secs_f64() > self.budget_s
    }
    /// Announce the case that is about to run (recorded in every violation for replay).
    pub fn begin_case(&mut self, case: u64) {
        self.report.cur = json!({"case": case, "shard": self.shard, "nshards": self.nshards, "seed": self.seed,
            "tier": if self.thorough { "thorough" } else { "quick" }});
    }
    /// Iterate `0..n` cases, or only the replayed one.
    pub fn cases(&self, n: u64) -> Vec<u64> {
        match self.only_case {
            Some(c) => vec![c],
            None => (0..n).collect(),
        }
    }
}

/// What a worker reports to the driver (one JSON object on stdout).
#[derive(Default)]
pub struct Report {
    pub evaluations: u64,
    pub nontrivial: HashSet<u64>,
    pub counters: BTreeMap<String, u64>,
    pub violations: Vec<J>,
    pub inconclusive: Vec<J>,
    pub harness_errors: Vec<J>,
    pub samples: Vec<J>,
    pub sets: BTreeMap<String, HashSet<String>>,
    pub cur: J,
}

impl Report {
    pub fn count(&mut self, k: &str, n: u64) {
        *self.counters.entry(k.to_string()).or_insert(0) += n;
    }
    pub fn note(&mut self, set: &str, item: &str) {
        self.sets.entry(set.to_string()).or_default().insert(item.to_string());
    }
    pub fn violation(&mut self, mut v: J) {
        if v.get("replay").is_none() {
            v["replay"] = self.cur.clone();
        }
        if self.violations.len() < 50 {
            self.violations.push(v);
        }
        self.count("violations_total", 1);
    }
    pub fn inconclusive(&mut self, v: J) {
        if self.inconclusive.len() < 20 {
            self.inconclusive.push(v);
        }
        self.count("inconclusive_total", 1);
    }
    pub fn harness_error(&mut self, v: J) {
        if self.harness_errors.len() < 20 {
            self.harness_errors.push(v);
        }
        self.count("harness_errors_total", 1);
    }
    pub fn sample(&mut self, v: J) {
        if self.samples.len() < 3 {
            self.samples.push(v);
        }
    }
    pub fn to_json(&self) -> J {
        let sets: BTreeMap<String, Vec<String>> = self
            .sets
            .iter()
            .map(|(k, v)| {
                let mut x: Vec<String> = v.iter().cloned().collect();
                x.sort();
                (k.clone(), x)
            })
            .collect();
        json!({
            "evaluations": self.evaluations,
            "nontrivial": self.nontrivial.iter().collect::<Vec<_>>(),
            "counters": self.counters,
            "violations": self.violations,
            "inconclusive": self.inconclusive,
            "harness_errors": self.harness_errors,
            "samples": self.samples,
            "sets": sets,
        })
    }
}

// ------------------------------------------------------------------------------------------

pub type WMap = HashMap<String, Val>;

pub fn wmap_json(m: &WMap, tys: &[(String, Ty)]) -> J {
    let mut o = serde_json::Map::new();
    for (n, t) in tys {
        if let Some(v) = m.get(n) {
            o.insert(
                n.clone(),
                json!({"type": render_ty(t), "value": render_val_dec(v)}),
            );
        }
    }
    J::Object(o)
}

pub fn to_sim_map(m: &WMap, tys: &[(String, Ty)]) -> Vec<(String, simfony::Value)> {
    tys.iter()
        .filter_map(|(n, t)| m.get(n).map(|v| (n.clone(), to_sim_val(v, t))))
        .collect()
}

/// A generated program made ready to run: holes filled, text rendered.
pub struct Prepared {
    pub prog: Program,
    pub rendered: Rendered,
    pub witnesses: Vec<(String, Ty)>,
    pub params: Vec<(String, Ty)>,
    pub primary: WMap,
    pub args: WMap,
    pub calls: HashMap<usize, CallName>,
}

impl Prepared {
    pub fn text(&self) -> &str {
        &self.rendered.text
    }
}

pub fn collect_calls(p: &Program) -> HashMap<usize, CallName> {
    let mut m = HashMap::new();
    for f in p.funcs() {
        f.body.visit(&mut |e| {
            if let Expr::Call(c) = e {
                m.insert(c.id, c.name.clone());
            }
        });
    }
    m
}

/// Fill the probe literals by a first interpretation under the primary witness assignment.
pub fn prepare(cx: &mut Ctx, g: Generated, rng: &mut Rng, style: &Style) -> Result<Prepared, String> {
    prepare_with(cx, g, rng, style, None, None)
}

pub fn prepare_with(
    cx: &mut Ctx,
    g: Generated,
    rng: &mut Rng,
    style: &Style,
    primary: Option<WMap>,
    args: Option<WMap>,
) -> Result<Prepared, String> {
    let mut prog = g.prog;
    let primary: WMap = primary.unwrap_or_else(|| {
        g.witnesses
            .iter()
            .map(|(n, t)| (n.clone(), random_val(t, rng)))
            .collect()
    });
    let args: WMap = args.unwrap_or_else(|| {
        g.params
            .iter()
            .map(|(n, t)| (n.clone(), random_val(t, rng)))
            .collect()
    });
    if !prog.holes.is_empty() {
        let mut it = Interp::new(&prog, &primary, &args, &mut cx.jets, &cx.golden)
            .map_err(|e| format!("interp setup: {e:?}"))?;
        it.mode = Mode::Fill;
        match it.run_main() {
            Ok(()) | Err(Stop::Panic { .. }) => {}
            Err(Stop::Refuse(r)) => return Err(format!("fill pass refused: {r}")),
        }
        prog.holes = it.holes;
        for h in prog.holes.iter_mut() {
            if h.val.is_none() {
                h.val = Some(match h.ty {
                    Ty::Bool => Val::Bool(false),
                    _ => random_val(&h.ty, rng),
                });
            }
        }
    }
    let rendered = render(&prog, style);
    let calls = collect_calls(&prog);
    Ok(Prepared {
        prog,
        rendered,
        witnesses: g.witnesses,
        params: g.params,
        primary,
        args,
        calls,
    })
}

/// The witness assignments to try: exhaustive when the space has at most 2^12 points,
/// otherwise the primary one, boundaries and random points.
pub fn witness_assignments(p: &Prepared, rng: &mut Rng, max_random: usize) -> (Vec<WMap>, bool) {
    if p.witnesses.is_empty() {
        return (vec![WMap::new()], true);
    }
    let mut card: u128 = 1;
    for (_, t) in &p.witnesses {
        card = card.saturating_mul(t.cardinality(1 << 13));
        if card > 4096 {
            break;
        }
    }
    if card <= 4096 {
        let mut acc: Vec<WMap> = vec![WMap::new()];
        for (n, t) in &p.witnesses {
            let vs = all_vals(t, 4096).unwrap_or_else(|| panic!("all_vals failed for {t:?}"));
            let mut next = vec![];
            for a in &acc {
                for v in &vs {
                    let mut x = a.clone();
                    x.insert(n.clone(), v.clone());
                    next.push(x);
                }
            }
            acc = next;
        }
        // primary first
        if let Some(i) = acc.iter().position(|m| *m == p.primary) {
            acc.swap(0, i);
        }
        return (acc, true);
    }
    let mut out = vec![p.primary.clone()];
    for hi in [false, true] {
        out.push(
            p.witnesses
                .iter()
                .map(|(n, t)| {
                    let b = boundary_vals(t);
                    (n.clone(), if hi { b[b.len() - 1].clone() } else { b[0].clone() })
                })
                .collect(),
        );
    }
    // single-witness perturbations of the primary assignment
    for (n, t) in &p.witnesses {
        let mut m = p.primary.clone();
        m.insert(n.clone(), random_val(t, rng));
        out.push(m);
    }
    for _ in 0..max_random {
        out.push(
            p.witnesses
                .iter()
                .map(|(n, t)| (n.clone(), random_val(t, rng)))
                .collect(),
        );
    }
    out.dedup();
    (out, false)
}

pub struct RefRun {
    pub verdict: Result<(), Stop>,
    pub events: Vec<REvent>,
    pub witness_reads: Vec<(String, Val)>,
}

pub fn run_reference(cx: &mut Ctx, p: &Prepared, w: &WMap, debug: bool) -> RefRun {
    let mut it = match Interp::new(&p.prog, w, &p.args, &mut cx.jets, &cx.golden) {
        Ok(i) => i,
        Err(e) => {
            return RefRun {
                verdict: Err(e),
                events: vec![],
                witness_reads: vec![],
            }
        }
    };
    it.debug = debug;
    let verdict = it.run_main();
    RefRun {
        verdict,
        events: it.events,
        witness_reads: it.witness_reads,
    }
}

pub fn normalize_ws(s: &str) -> String {
    s.chars().filter(|c| !c.is_whitespace()).collect()
}

/// Does the debug symbol describe this call site? (C14 static part, also used by M5)
pub fn symbol_matches(
    sym: &simfony::debug::TrackedCall,
    name: &CallName,
    call_text: &str,
) -> Result<(), String> {
    let kind_ok = matches!(
        (sym.name(), name),
        (TrackedCallName::Assert, CallName::Assert)
            | (TrackedCallName::Panic, CallName::Panic)
            | (TrackedCallName::Jet, CallName::Jet(_))
            | (TrackedCallName::UnwrapLeft(_), CallName::UnwrapLeft(_))
            | (TrackedCallName::UnwrapRight(_), CallName::UnwrapRight(_))
            | (TrackedCallName::Unwrap, CallName::Unwrap)
            | (TrackedCallName::Debug(_), CallName::Dbg)
    );
    if !kind_ok {
        return Err(format!("symbol kind {:?} for call `{}`", sym.name(), call_text));
    }
    let want = normalize_ws(&strip_comments(call_text));
    let got = normalize_ws(&strip_comments(sym.text()));
    let ok = if matches!(name, CallName::Dbg) {
        // either the whole call or its argument
        got == want
            || want
                .strip_prefix("dbg!(")
                .and_then(|s| s.strip_suffix(')'))
                .map_or(false, |inner| inner == got)
    } else {
        got == want
    };
    if ok {
        Ok(())
    } else {
        Err(format!("symbol text `{}` for call `{}`", sym.text(), call_text))
    }
}

/// Strip comments (the renderer may have put some inside a call expression).
pub fn strip_comments(s: &str) -> String {
    let b = s.as_bytes();
    let mut out = String::new();
    let mut i = 0;
    while i < b.len() {
        if b[i] == b'/' && i + 1 < b.len() && b[i + 1] == b'*' {
            i += 2;
            while i + 1 < b.len() && !(b[i] == b'*' && b[i + 1] == b'/') {
                i += 1;
            }
            i += 2;
        } else if b[i] == b'/' && i + 1 < b.len() && b[i + 1] == b'/' {
            while i < b.len() && b[i] != b'\n' {
                i += 1;
            }
        } else {
            let ch_len = s[i..].chars().next().map(|c| c.len_utf8()).unwrap_or(1);
            out.push_str(&s[i..i + ch_len]);
            i += ch_len;
        }
    }
    out
}

/// M5 — compare the observed event log with the prescribed one.
pub fn compare_traces(
    p: &Prepared,
    reference: &[REvent],
    observed: &[Event],
    symbols: Option<&DebugSymbols>,
) -> Result<(), String> {
    let n = reference.len().min(observed.len());
    for i in 0..n {
        let ok = match (&reference[i], &observed[i]) {
            (
                REvent::Jet { name, input, output, .. },
                Event::Jet { name: n2, input: i2, output: o2 },
            ) => name == n2 && input == i2 && output == o2,
            (REvent::Unwrap { right, scrut, .. }, Event::Unwrap { right: r2, scrut: s2 }) => {
                // parts of a value that the program never inspects have type 1 in Simplicity
                right == r2 && crate::layout::pruned_match(s2, scrut)
            }
            (REvent::Fail { .. }, Event::Fail) => true,
            (REvent::Witness { value, .. }, Event::Witness { value: v2 }) => crate::layout::pruned_match(v2, value),
            (REvent::Marker { call, args }, Event::Marker { cmr, args: a2 }) => {
                if !crate::layout::pruned_match(a2, args) {
                    false
                } else if let Some(syms) = symbols {
                    let c = simfony::simplicity::Cmr::from_byte_array(*cmr);
                    match (syms.get(&c), p.calls.get(call), p.rendered.call_text(*call)) {
                        (Some(sym), Some(name), Some(text)) => {
                            match symbol_matches(sym, name, &strip_comments(text)) {
                                Ok(()) => true,
                                Err(e) => return Err(format!("event {i}: {e}")),
                            }
                        }
                        _ => return Err(format!("event {i}: marker without symbol / call")),
                    }
                } else {
                    true
                }
            }
            _ => false,
        };
        if !ok {
            return Err(format!(
                "event {i} differs: prescribed `{}`, observed `{}`",
                reference[i].brief(),
                observed[i].brief()
            ));
        }
    }
    if reference.len() != observed.len() {
        let extra = if reference.len() > observed.len() {
            format!("prescribed `{}` missing", reference[n].brief())
        } else {
            format!("unprescribed `{}`", observed[n].brief())
        };
        return Err(format!(
            "event count differs: prescribed {}, observed {}; first {extra}",
            reference.len(),
            observed.len()
        ));
    }
    Ok(())
}

pub fn verdict_str(v: &Result<(), Stop>) -> String {
    match v {
        Ok(()) => "finishes".into(),
        Err(Stop::Panic { call, why }) => format!("panics at call #{call} ({why})"),
        Err(Stop::Refuse(r)) => format!("REFUSED: {r}"),
    }
}

/// Built program for both debug settings.
pub struct Compiled {
    pub template: TemplateProgram,
    pub compiled: CompiledProgram,
    pub commit: CommitInfo,
}

pub enum BuildFail {
    Rejected(String),
    /// accepted by `new` but later stages failed (C03 territory)
    Backend(String),
    Panic(PanicInfo),
}

pub fn build(p_text: &str, args: &simfony::Arguments, debug: bool) -> Result<Compiled, BuildFail> {
    let template = match new_template(p_text) {
        Outcome::Ok(t) => t,
        Outcome::Err(e) => return Err(BuildFail::Rejected(e)),
        Outcome::Panic(p) => return Err(BuildFail::Panic(p)),
    };
    let compiled = match instantiate(&template, args, debug) {
        Outcome::Ok(c) => c,
        Outcome::Err(e) => return Err(BuildFail::Backend(e)),
        Outcome::Panic(p) => return Err(BuildFail::Panic(p)),
    };
    let commit = match commit(&compiled) {
        Outcome::Ok(c) => c,
        Outcome::Err(e) => return Err(BuildFail::Backend(e)),
        Outcome::Panic(p) => return Err(BuildFail::Panic(p)),
    };
    Ok(Compiled {
        template,
        compiled,
        commit,
    })
}

/// Did the Trace agree with the Bit Machine on success / failure?
pub fn trace_agrees(trace: &Trace, exec: &Outcome<Result<(), String>>) -> Result<(), String> {
    match (&trace.result, exec) {
        (Ok(()), Outcome::Ok(Ok(()))) => Ok(()),
        (Err(TStop::Unsupported(u)), _) => Err(format!("trace machine unsupported: {u}")),
        (Err(_), Outcome::Ok(Err(_))) => Ok(()),
        (t, e) => Err(format!("trace machine says {t:?}, bit machine says {}", e.brief())),
    }
}

pub fn case_json(p: &Prepared, w: &WMap, debug: bool) -> J {
    json!({
        "program": p.text(),
        "witness": wmap_json(w, &p.witnesses),
        "arguments": wmap_json(&p.args, &p.params),
        "debug_symbols": debug,
    })
}

/// Case number under which the corpus regression inputs are run (and replayed).
pub const CORPUS_CASE: u64 = 1_000_000_000;

/// Corpus regression inputs that come with a witness file: (file name, program, witness values).
pub fn corpus_with_witness() -> Vec<(String, String, simfony::WitnessValues)> {
    let root = std::env::var("VERIF_ROOT").unwrap_or_else(|_| "/verif".into());
    let mut v = vec![];
    if let Ok(d) = std::fs::read_dir(format!("{root}/corpus")) {
        let mut paths: Vec<_> = d.filter_map(|e| e.ok()).map(|e| e.path()).collect();
        paths.sort();
        for p in paths {
            if p.extension().map_or(true, |e| e != "simf") {
                continue;
            }
            let (Ok(text), Ok(wit)) = (std::fs::read_to_string(&p), std::fs::read_to_string(p.with_extension("wit"))) else { continue };
            if let Ok(w) = serde_json::from_str::<simfony::WitnessValues>(&wit) {
                v.push((p.file_name().map(|n| n.to_string_lossy().to_string()).unwrap_or_default(), text, w));
            }
        }
    }
    v
}
