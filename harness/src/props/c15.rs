//! C15 — values, witness/argument maps and types survive print-parse.

use std::collections::HashMap;

use serde_json::json;
use simfony::parse::ParseFromStr;
use simfony::{Arguments, ResolvedType, Value, WitnessValues};

use super::common::*;
use crate::ast::*;
use crate::bridge::*;
use crate::rng::{fnv64, Rng};
use crate::textparse;
use crate::vals::*;

fn targeted_type(rng: &mut Rng, k: u64) -> Ty {
    // the printer has a stateful shortcut for byte arrays: aim at it
    let n = (k % 65) as usize;
    match (k / 65) % 10 {
        0 => Ty::arr(Ty::U(8), n),
        1 => Ty::arr(Ty::arr(Ty::U(8), n % 5), (k % 4) as usize),
        2 => Ty::Tuple(vec![Ty::arr(Ty::U(8), n % 9), Ty::U(8), Ty::arr(Ty::U(8), n % 3)]),
        3 => Ty::opt(Ty::arr(Ty::U(8), n % 7)),
        4 => Ty::list(Ty::arr(Ty::U(8), n % 4), 4),
        5 => Ty::arr(Ty::U(*rng.pick(&[4u16, 16, 1, 128, 256])), n % 6),
        6 => Ty::Tuple(vec![Ty::arr(Ty::U(16), 2), Ty::arr(Ty::U(8), 2), Ty::arr(Ty::U(4), 2)]),
        7 => Ty::either(Ty::arr(Ty::U(8), n % 5), Ty::list(Ty::U(8), 8)),
        8 => Ty::arr(Ty::Tuple(vec![Ty::U(8)]), n % 5),
        _ => Ty::Tuple(vec![Ty::unit(), Ty::arr(Ty::unit(), n % 4), Ty::list(Ty::unit(), 2), Ty::Tuple(vec![Ty::Bool])]),
    }
}

pub fn run(cx: &mut Ctx) {
    let n: u64 = if cx.thorough { 400_000 } else { 80_000 };
    for i in cx.cases(n) {
        if cx.out_of_time() {
            break;
        }
        cx.begin_case(i);
        let mut rng = cx.rng(&[i]);
        if i % 10 == 9 {
            one_map(cx, &mut rng, i);
        } else {
            let ty = if i % 3 == 0 {
                targeted_type(&mut rng, i / 3 * cx.nshards as u64 + cx.shard as u64)
            } else {
                let d = rng.below(4);
                random_ty(&mut rng, d, 16)
            };
            let v = random_val(&ty, &mut rng);
            one_value(cx, &ty, &v);
        }
    }
    // types with large list bounds and array sizes: print-parse only (no value, no layout is built)
    if cx.shard == 0 && cx.only_case.is_none() {
        let elems = [Ty::U(8), Ty::Bool, Ty::unit(), Ty::opt(Ty::U(16))];
        for k in 1..=62u32 {
            for (j, e) in elems.iter().enumerate() {
                let bound = 1usize << k;
                let sizes = [bound, bound - 1, bound + 1, bound / 3 + 7];
                let tys = [
                    Ty::list(e.clone(), bound),
                    Ty::arr(e.clone(), sizes[j]),
                    Ty::Tuple(vec![Ty::list(e.clone(), bound), Ty::arr(Ty::U(1), sizes[(j + 1) % 4])]),
                ];
                for ty in tys {
                    cx.report.evaluations += 1;
                    let sty = to_sim_ty(&ty);
                    let printed = match guard(|| sty.to_string()) {
                        Ok(s) => s,
                        Err(p) => {
                            cx.report.violation(json!({"kind": "panic", "what": format!("printing the type {} panicked: {}", render_ty(&ty), p.message), "signature": format!("bigtype:{}", render_ty(&ty))}));
                            continue;
                        }
                    };
                    let back = call(|| ResolvedType::parse_from_str(&printed));
                    let ok = printed == render_ty(&ty) && matches!(&back, Outcome::Ok(t2) if *t2 == sty);
                    if !ok {
                        cx.report.violation(json!({"kind": "type-roundtrip", "what": format!("type {} prints as `{printed}`, which parses back as {}", render_ty(&ty), back.map(|t| t.to_string()).brief_val()),
                            "signature": format!("bigtype:{}", render_ty(&ty))}));
                    } else {
                        cx.report.count("large_types_round_tripped", 1);
                    }
                }
            }
        }
    }
    // small domains exhaustively (shard 0 only: they ignore the seed)
    if cx.shard == 0 && cx.only_case.is_none() {
        let small = [
            Ty::Bool,
            Ty::U(1),
            Ty::U(2),
            Ty::U(4),
            Ty::U(8),
            Ty::unit(),
            Ty::opt(Ty::U(2)),
            Ty::either(Ty::Bool, Ty::U(2)),
            Ty::Tuple(vec![Ty::U(2), Ty::Bool]),
            Ty::arr(Ty::U(2), 3),
            Ty::list(Ty::U(1), 8),
            Ty::list(Ty::Bool, 4),
            Ty::arr(Ty::U(4), 2),
            Ty::opt(Ty::opt(Ty::Bool)),
            Ty::Tuple(vec![Ty::U(1)]),
        ];
        for t in &small {
            for v in all_vals(t, 5000).unwrap_or_default() {
                one_value(cx, t, &v);
            }
            cx.report.count("types_enumerated_exhaustively", 1);
        }
    }
}

fn one_value(cx: &mut Ctx, ty: &Ty, v: &Val) {
    cx.report.evaluations += 1;
    let sty = to_sim_ty(ty);
    let sv = to_sim_val(v, ty);
    let tys = match guard(|| sty.to_string()) {
        Ok(s) => s,
        Err(p) => {
            cx.report.violation(json!({"kind": "panic", "what": format!("printing type panicked: {}", p.message), "type": render_ty(ty),
                "signature": format!("typrint:{}", render_ty(ty))}));
            return;
        }
    };
    let text = match guard(|| sv.to_string()) {
        Ok(s) => s,
        Err(p) => {
            cx.report.violation(json!({"kind": "panic", "what": format!("printing value panicked: {} @ {}", p.message, p.location),
                "type": tys, "value": render_val_dec(v), "signature": format!("valprint:{tys}")}));
            return;
        }
    };
    let sig = format!("value:{tys}:{text}");
    // type round trip
    match call(|| ResolvedType::parse_from_str(&tys)) {
        Outcome::Ok(t2) if t2 == sty => {}
        o => {
            cx.report.violation(json!({"kind": "type-roundtrip", "what": format!("type `{tys}` printed from {} parses back as {}", render_ty(ty),
                o.map(|t| t.to_string()).brief_val()), "signature": format!("type:{tys}")}));
            return;
        }
    }
    // the printed type denotes the type (independent reader)
    match textparse::parse_ty(&tys).and_then(|t| resolve_builtin(&t)) {
        Ok(t2) if t2 == *ty => {}
        o => {
            cx.report.violation(json!({"kind": "type-denotation", "what": format!("type {} prints as `{tys}`, which reads as {:?}", render_ty(ty), o),
                "signature": format!("typeden:{tys}")}));
            return;
        }
    }
    // value round trip
    match call(|| Value::parse_from_str(&text, &sty)) {
        Outcome::Ok(v2) if v2 == sv => {}
        o => {
            cx.report.violation(json!({"kind": "value-roundtrip", "what": format!("value `{text}` of type `{tys}` parses back as {}",
                o.map(|x| x.to_string()).brief_val()), "signature": sig}));
            return;
        }
    }
    // the printed text denotes the value (independent reader written from the book's notation)
    match textparse::parse_val(&text, ty) {
        Ok(v2) if v2 == *v => {}
        o => {
            cx.report.violation(json!({"kind": "value-denotation", "what": format!("value {} of type {tys} prints as `{text}`, which reads as {:?}",
                render_val_dec(v), o.map(|x| render_val_dec(&x))), "signature": sig}));
            return;
        }
    }
    // the harness's own rendering is accepted too and means the same
    let mine = render_val_dec(v);
    match call(|| Value::parse_from_str(&mine, &sty)) {
        Outcome::Ok(v2) if v2 == sv => {}
        o => {
            cx.report.violation(json!({"kind": "value-parse", "what": format!("text `{mine}` at type `{tys}` parses as {}",
                o.map(|x| x.to_string()).brief_val()), "signature": format!("valparse:{tys}:{mine}")}));
            return;
        }
    }
    cx.report.nontrivial.insert(fnv64(sig.as_bytes()));
    if cx.report.samples.len() < 3 && text.len() > 8 {
        cx.report.sample(json!({"type": tys, "printed": text}));
    }
    match ty {
        Ty::Array(e, _) if **e == Ty::U(8) => cx.report.count("byte_arrays", 1),
        _ => {}
    }
}

trait BriefVal {
    fn brief_val(&self) -> String;
}
impl BriefVal for Outcome<String> {
    fn brief_val(&self) -> String {
        match self {
            Outcome::Ok(s) => format!("Ok(`{s}`)"),
            other => other.brief(),
        }
    }
}

fn one_map(cx: &mut Ctx, rng: &mut Rng, i: u64) {
    cx.report.evaluations += 1;
    let n = rng.below(7);
    let mut entries: Vec<(String, Ty, Val)> = vec![];
    let pool = ["A", "B", "a", "b", "zz", "Z9", "a_b", "sig", "PK", "x1", "X1", "ab", "aB", "W", "w0"];
    for _ in 0..n {
        let name = rng.pick(&pool).to_string();
        if entries.iter().any(|e| e.0 == name) {
            continue;
        }
        let d = rng.below(3);
        let ty = random_ty(rng, d, 8);
        let v = random_val(&ty, rng);
        entries.push((name, ty, v));
    }
    let sim: Vec<(String, Value)> = entries.iter().map(|(n, t, v)| (n.clone(), to_sim_val(v, t))).collect();
    let mut rev = sim.clone();
    rev.reverse();
    let key = format!("map:{}", entries.iter().map(|e| format!("{}={};", e.0, render_val_dec(&e.2))).collect::<String>());
    let mut bad = |cx: &mut Ctx, what: String| {
        cx.report.violation(json!({"kind": "map", "what": what, "signature": key.clone()}));
    };
    // --- module form, witness and param
    for module in ["witness", "param"] {
        let (t1, t2, parsed): (String, String, Outcome<bool>) = if module == "witness" {
            let m1 = witness_values(&sim);
            let m2 = witness_values(&rev);
            let t1 = m1.to_string();
            let t2 = m2.to_string();
            let parsed = call(|| WitnessValues::parse_from_str(&t1)).map(|m| m == m1);
            (t1, t2, parsed)
        } else {
            let m1 = arguments(&sim);
            let m2 = arguments(&rev);
            let t1 = m1.to_string();
            let t2 = m2.to_string();
            let parsed = call(|| Arguments::parse_from_str(&t1)).map(|m| m == m1);
            (t1, t2, parsed)
        };
        if t1 != t2 {
            bad(cx, format!("printing the same {module} map built in two insertion orders differs:\n{t1}\n---\n{t2}"));
            return;
        }
        let names: Vec<&str> = t1
            .lines()
            .filter_map(|l| l.trim().strip_prefix("const "))
            .filter_map(|l| l.split(':').next())
            .collect();
        let mut sorted = names.clone();
        sorted.sort();
        if names != sorted || names.len() != entries.len() {
            bad(cx, format!("names of the printed {module} module are not sorted / complete: {names:?}"));
            return;
        }
        match parsed {
            Outcome::Ok(true) => {}
            o => {
                bad(cx, format!("printed {module} module does not parse back to an equal map ({}):\n{t1}", o.brief()));
                return;
            }
        }
        // the same module written by hand in another layout (white space, line breaks and comments
        // around every token) denotes the same map
        {
            let mut lrng = cx.rng(&[i, 79, module.len() as u64]);
            let gaps = ["", " ", "  ", "\n", "\t", " /* c */ ", " // c\n", "\r\n"];
            let mut gap = |must: bool| -> String {
                let g = *lrng.pick(&gaps);
                if must && g.is_empty() { " ".to_string() } else { g.to_string() }
            };
            let mut text = format!("{}mod{}{module}{}{{{}", gap(false), gap(true), gap(false), gap(false));
            for (n, t, v) in &entries {
                text.push_str(&format!("const{}{n}{}:{}{}{}={}{}{};{}", gap(true), gap(false), gap(false), render_ty(t), gap(false), gap(false), render_val_dec(v), gap(false), gap(false)));
            }
            text.push('}');
            text.push_str(&gap(false));
            let same = if module == "witness" {
                call(|| WitnessValues::parse_from_str(&text)).map(|m| m == witness_values(&sim))
            } else {
                call(|| Arguments::parse_from_str(&text)).map(|m| m == arguments(&sim))
            };
            match same {
                Outcome::Ok(true) => cx.report.count("hand_written_modules_parsed", 1),
                o => {
                    bad(cx, format!("a {module} module written in another layout does not denote the same map ({}):\n{text}", o.brief()));
                    return;
                }
            }
        }
        // duplicate assignment is rejected
        if let Some((n, t, v)) = entries.first() {
            let line = format!("    const {n}: {} = {};\n", render_ty(t), render_val_dec(v));
            // the same assignment twice, or (every other map) a second assignment of another value
            let second = if i % 2 == 0 { line.clone() } else { format!("    const {n}: {} = {};\n", render_ty(t), render_val_dec(&random_val(t, &mut cx.rng(&[i, 77])))) };
            let dup = t1.replacen(&line, &format!("{line}{second}"), 1);
            if dup != t1 {
                let r = if module == "witness" {
                    call(|| WitnessValues::parse_from_str(&dup)).map(|_| ())
                } else {
                    call(|| Arguments::parse_from_str(&dup)).map(|_| ())
                };
                if !r.is_err() {
                    bad(cx, format!("{module} module assigning `{n}` twice -> {}:\n{dup}", r.brief()));
                    return;
                }
                cx.report.count("duplicate_module_rejected", 1);
            }
        }
    }
    // --- JSON form
    let m1 = witness_values(&sim);
    let js = match call(|| serde_json::to_string(&m1)) {
        Outcome::Ok(s) => s,
        o => {
            bad(cx, format!("serializing a witness map failed: {}", o.map(|_| ()).brief()));
            return;
        }
    };
    match call(|| serde_json::from_str::<WitnessValues>(&js)) {
        Outcome::Ok(m) if m == m1 => {}
        o => {
            bad(cx, format!("JSON witness map does not parse back ({}): {js}", o.map(|_| ()).brief()));
            return;
        }
    }
    let a1 = arguments(&sim);
    match call(|| serde_json::to_string(&a1)).ok().map(|s| call(|| serde_json::from_str::<Arguments>(&s))) {
        Some(Outcome::Ok(m)) if m == a1 => {}
        _ => {
            bad(cx, format!("JSON argument map does not parse back: {js}"));
            return;
        }
    }
    // the JSON denotes the map (independent reading through serde_json::Value)
    match serde_json::from_str::<serde_json::Value>(&js) {
        Ok(serde_json::Value::Object(o)) => {
            let mut seen: HashMap<String, ()> = HashMap::new();
            for (n, t, v) in &entries {
                let ok = o.get(n).map_or(false, |e| {
                    let ty_ok = e
                        .get("type")
                        .and_then(|x| x.as_str())
                        .and_then(|s| textparse::parse_ty(s).ok())
                        .and_then(|x| resolve_builtin(&x).ok())
                        .map_or(false, |x| x == *t);
                    let val_ok = e
                        .get("value")
                        .and_then(|x| x.as_str())
                        .and_then(|s| textparse::parse_val(s, t).ok())
                        .map_or(false, |x| x == *v);
                    ty_ok && val_ok
                });
                if !ok {
                    bad(cx, format!("JSON entry for `{n}` does not denote the value: {js}"));
                    return;
                }
                seen.insert(n.clone(), ());
            }
            if o.len() != seen.len() {
                bad(cx, format!("JSON has {} entries for {} names", o.len(), seen.len()));
                return;
            }
        }
        _ => {
            bad(cx, format!("JSON witness map is not an object: {js}"));
            return;
        }
    }
    // duplicate key rejected
    if let Some((n, t, v)) = entries.first() {
        let entry = format!("\"{n}\":{{\"value\":\"{}\",\"type\":\"{}\"}}", render_val_dec(v), render_ty(t));
        let entry = if i % 2 == 0 { entry } else { format!("\"{n}\":{{\"value\":\"{}\",\"type\":\"{}\"}}", render_val_dec(&random_val(t, &mut cx.rng(&[i, 78]))), render_ty(t)) };
        let dup = format!("{{{entry},{}", &js[1..]);
        let r = call(|| serde_json::from_str::<WitnessValues>(&dup)).map(|_| ());
        if !r.is_err() {
            bad(cx, format!("JSON assigning `{n}` twice -> {}: {dup}", r.brief()));
            return;
        }
        cx.report.count("duplicate_json_rejected", 1);
    }
    cx.report.count("maps", 1);
    cx.report.nontrivial.insert(fnv64(format!("{i}{key}").as_bytes()));
}
