//! The documented structural layout (book: type_casting.md), written independently of simfony.
//!
//! * `uN` = pair of halves down to `u1 = Either<(), ()>`
//! * `bool = Either<(), ()>`, `Option<A> = Either<(), A>`
//! * n-tuples / n-arrays: nested products, the right part holds the largest power of two
//!   strictly below n elements (n >= 2); 1-tuple = its element; 0-tuple = unit
//! * `List<A, 2> = Option<A>`, `List<A, 2^k> = (Option<[A; 2^(k-1)]>, List<A, 2^(k-1)>)`,
//!   elements fill the blocks in order.

use std::rc::Rc;

use crate::ast::{Ty, Val};
use crate::u256::U256;

/// Shape of a Simplicity type.
#[derive(Clone, PartialEq, Eq, Hash, Debug)]
pub enum TyTree {
    Unit,
    Sum(Rc<TyTree>, Rc<TyTree>),
    Prod(Rc<TyTree>, Rc<TyTree>),
}

/// Shape of a Simplicity value.
#[derive(Clone, PartialEq, Eq, Hash, Debug)]
pub enum Tree {
    Unit,
    L(Rc<Tree>),
    R(Rc<Tree>),
    P(Rc<Tree>, Rc<Tree>),
}

thread_local! {
    /// Shared trees of all 1-, 2-, 4- and 8-bit words (index = depth 0..=3): long event logs
    /// hold millions of word values, which are otherwise one allocation per bit and per pair.
    static SMALL_WORDS: std::cell::RefCell<[Vec<Option<Tree>>; 4]> =
        std::cell::RefCell::new([vec![None; 2], vec![None; 4], vec![None; 16], vec![None; 256]]);
}

fn small_word(depth: usize, code: usize) -> Tree {
    if let Some(t) = SMALL_WORDS.with(|c| c.borrow()[depth][code].clone()) {
        return t;
    }
    let t = if depth == 0 {
        if code == 1 {
            Tree::R(Rc::new(Tree::Unit))
        } else {
            Tree::L(Rc::new(Tree::Unit))
        }
    } else {
        let half = 1usize << (depth - 1);
        let hi = small_word(depth - 1, code >> half);
        let lo = small_word(depth - 1, code & ((1 << half) - 1));
        Tree::P(Rc::new(hi), Rc::new(lo))
    };
    SMALL_WORDS.with(|c| c.borrow_mut()[depth][code] = Some(t.clone()));
    t
}

impl Tree {
    /// (depth, bits) when this is the tree of a 1-, 2-, 4- or 8-bit word
    fn small_code(&self, max_depth: usize) -> Option<(usize, usize)> {
        match self {
            Tree::L(x) if **x == Tree::Unit => Some((0, 0)),
            Tree::R(x) if **x == Tree::Unit => Some((0, 1)),
            Tree::P(a, b) if max_depth > 0 => {
                let (da, ca) = a.small_code(max_depth - 1)?;
                let (db, cb) = b.small_code(max_depth - 1)?;
                if da == db {
                    Some((da + 1, (ca << (1usize << da)) | cb))
                } else {
                    None
                }
            }
            _ => None,
        }
    }
    pub fn l(t: Tree) -> Tree {
        if t == Tree::Unit {
            return small_word(0, 0);
        }
        Tree::L(Rc::new(t))
    }
    pub fn r(t: Tree) -> Tree {
        if t == Tree::Unit {
            return small_word(0, 1);
        }
        Tree::R(Rc::new(t))
    }
    pub fn p(a: Tree, b: Tree) -> Tree {
        if let (Some((da, ca)), Some((db, cb))) = (a.small_code(2), b.small_code(2)) {
            if da == db {
                return small_word(da + 1, (ca << (1usize << da)) | cb);
            }
        }
        Tree::P(Rc::new(a), Rc::new(b))
    }
    pub fn bit(b: bool) -> Tree {
        small_word(0, b as usize)
    }
    /// Compact textual form: `.` unit, `0x`/`1x` sums, `(ab)` product. Bit strings are run-length
    /// friendly: a left/right of unit prints as 0/1.
    pub fn show(&self) -> String {
        let mut s = String::new();
        self.show_into(&mut s);
        s
    }
    fn show_into(&self, s: &mut String) {
        match self {
            Tree::Unit => s.push('.'),
            Tree::L(x) => {
                if **x == Tree::Unit {
                    s.push('0')
                } else {
                    s.push_str("L");
                    x.show_into(s)
                }
            }
            Tree::R(x) => {
                if **x == Tree::Unit {
                    s.push('1')
                } else {
                    s.push_str("R");
                    x.show_into(s)
                }
            }
            Tree::P(a, b) => {
                s.push('(');
                a.show_into(s);
                b.show_into(s);
                s.push(')');
            }
        }
    }
    /// Short form for logs (long bit strings are hashed).
    pub fn brief(&self) -> String {
        let s = self.show();
        if s.len() <= 80 {
            s
        } else {
            format!("{}…#{:016x}", &s[..40], crate::rng::fnv64(s.as_bytes()))
        }
    }
}

fn split_point(n: usize) -> usize {
    // right part: largest power of two strictly below n
    debug_assert!(n >= 2);
    let mut p = 1;
    while p * 2 < n {
        p *= 2;
    }
    n - p
}

fn fold_seq<T: Clone>(xs: &[T], unit: &dyn Fn() -> T, pair: &dyn Fn(T, T) -> T) -> T {
    match xs.len() {
        0 => unit(),
        1 => xs[0].clone(),
        n => {
            let k = split_point(n);
            pair(fold_seq(&xs[..k], unit, pair), fold_seq(&xs[k..], unit, pair))
        }
    }
}

pub fn ty_unit() -> Rc<TyTree> {
    thread_local!(static U: Rc<TyTree> = Rc::new(TyTree::Unit));
    U.with(|u| u.clone())
}

fn ty_bit() -> Rc<TyTree> {
    Rc::new(TyTree::Sum(ty_unit(), ty_unit()))
}

/// `layout_type`: the Simplicity type shape of a (resolved) Simfony type.
pub fn layout_type(t: &Ty) -> Rc<TyTree> {
    match t {
        Ty::Bool => ty_bit(),
        Ty::U(n) => {
            let mut cur = ty_bit();
            let mut w = 1;
            while w < *n {
                cur = Rc::new(TyTree::Prod(cur.clone(), cur));
                w *= 2;
            }
            cur
        }
        Ty::Tuple(v) => {
            let xs: Vec<Rc<TyTree>> = v.iter().map(layout_type).collect();
            fold_seq(&xs, &ty_unit, &|a, b| Rc::new(TyTree::Prod(a, b)))
        }
        Ty::Array(t, n) => {
            let e = layout_type(t);
            array_ty(&e, *n)
        }
        Ty::List(t, b) => {
            let e = layout_type(t);
            list_ty(&e, *b)
        }
        Ty::Option(t) => Rc::new(TyTree::Sum(ty_unit(), layout_type(t))),
        Ty::Either(l, r) => Rc::new(TyTree::Sum(layout_type(l), layout_type(r))),
        Ty::Alias(n) => panic!("layout_type of unresolved alias {n}"),
    }
}

fn array_ty(e: &Rc<TyTree>, n: usize) -> Rc<TyTree> {
    match n {
        0 => ty_unit(),
        1 => e.clone(),
        n => {
            let k = split_point(n);
            Rc::new(TyTree::Prod(array_ty(e, k), array_ty(e, n - k)))
        }
    }
}

fn list_ty(e: &Rc<TyTree>, bound: usize) -> Rc<TyTree> {
    if bound == 2 {
        Rc::new(TyTree::Sum(ty_unit(), e.clone()))
    } else {
        let half = bound / 2;
        Rc::new(TyTree::Prod(
            Rc::new(TyTree::Sum(ty_unit(), array_ty(e, half))),
            list_ty(e, half),
        ))
    }
}

pub fn uint_tree(bits: u16, x: &U256) -> Tree {
    fn go(x: &U256, width: usize, lo: usize, len: usize) -> Tree {
        if len == 1 {
            Tree::bit(x.bit_msb(width, lo))
        } else {
            Tree::p(go(x, width, lo, len / 2), go(x, width, lo + len / 2, len / 2))
        }
    }
    go(x, bits as usize, 0, bits as usize)
}

/// `layout_value`: the Simplicity value shape of a Simfony value.
pub fn layout_value(v: &Val) -> Tree {
    match v {
        Val::Bool(b) => Tree::bit(*b),
        Val::U(bits, x) => uint_tree(*bits, x),
        Val::Tuple(vs) | Val::Array(vs) => {
            let xs: Vec<Tree> = vs.iter().map(layout_value).collect();
            fold_seq(&xs, &|| Tree::Unit, &|a, b| Tree::p(a, b))
        }
        Val::List(vs, bound) => {
            let xs: Vec<Tree> = vs.iter().map(layout_value).collect();
            list_tree(&xs, *bound)
        }
        Val::None => Tree::l(Tree::Unit),
        Val::Some(x) => Tree::r(layout_value(x)),
        Val::Left(x) => Tree::l(layout_value(x)),
        Val::Right(x) => Tree::r(layout_value(x)),
    }
}

fn list_tree(xs: &[Tree], bound: usize) -> Tree {
    assert!(xs.len() < bound);
    if bound == 2 {
        match xs.first() {
            None => Tree::l(Tree::Unit),
            Some(x) => Tree::r(x.clone()),
        }
    } else {
        let half = bound / 2;
        if xs.len() >= half {
            let block = fold_seq(&xs[..half], &|| Tree::Unit, &|a, b| Tree::p(a, b));
            Tree::p(Tree::r(block), list_tree(&xs[half..], half))
        } else {
            Tree::p(Tree::l(Tree::Unit), list_tree(xs, half))
        }
    }
}

fn unfold_seq(t: &Tree, n: usize, out: &mut Vec<Tree>) -> Option<()> {
    match n {
        0 => {
            if *t == Tree::Unit {
                Some(())
            } else {
                None
            }
        }
        1 => {
            out.push(t.clone());
            Some(())
        }
        n => match t {
            Tree::P(a, b) => {
                let k = split_point(n);
                unfold_seq(a, k, out)?;
                unfold_seq(b, n - k, out)
            }
            _ => None,
        },
    }
}

/// Read a value shape back at a (resolved) type. None if the shape does not fit the type.
pub fn from_tree(t: &Tree, ty: &Ty) -> Option<Val> {
    match ty {
        Ty::Bool => match t {
            Tree::L(u) if **u == Tree::Unit => Some(Val::Bool(false)),
            Tree::R(u) if **u == Tree::Unit => Some(Val::Bool(true)),
            _ => None,
        },
        Ty::U(n) => {
            let mut bits = Vec::with_capacity(*n as usize);
            fn go(t: &Tree, len: usize, bits: &mut Vec<bool>) -> Option<()> {
                if len == 1 {
                    match t {
                        Tree::L(u) if **u == Tree::Unit => bits.push(false),
                        Tree::R(u) if **u == Tree::Unit => bits.push(true),
                        _ => return None,
                    }
                    Some(())
                } else {
                    match t {
                        Tree::P(a, b) => {
                            go(a, len / 2, bits)?;
                            go(b, len / 2, bits)
                        }
                        _ => None,
                    }
                }
            }
            go(t, *n as usize, &mut bits)?;
            Some(Val::U(*n, U256::from_bits_msb(&bits)))
        }
        Ty::Tuple(tys) => {
            let mut parts = vec![];
            unfold_seq(t, tys.len(), &mut parts)?;
            let vs = parts
                .iter()
                .zip(tys)
                .map(|(p, ty)| from_tree(p, ty))
                .collect::<Option<Vec<_>>>()?;
            Some(Val::Tuple(vs))
        }
        Ty::Array(ety, n) => {
            let mut parts = vec![];
            unfold_seq(t, *n, &mut parts)?;
            let vs = parts
                .iter()
                .map(|p| from_tree(p, ety))
                .collect::<Option<Vec<_>>>()?;
            Some(Val::Array(vs))
        }
        Ty::List(ety, bound) => {
            let mut elems = vec![];
            let mut cur = t.clone();
            let mut b = *bound;
            loop {
                if b == 2 {
                    match &cur {
                        Tree::L(u) if **u == Tree::Unit => {}
                        Tree::R(x) => elems.push((**x).clone()),
                        _ => return None,
                    }
                    break;
                }
                let half = b / 2;
                let (blk, rest) = match &cur {
                    Tree::P(a, r) => ((**a).clone(), (**r).clone()),
                    _ => return None,
                };
                match &blk {
                    Tree::L(u) if **u == Tree::Unit => {}
                    Tree::R(x) => unfold_seq(x, half, &mut elems)?,
                    _ => return None,
                }
                cur = rest;
                b = half;
            }
            let vs = elems
                .iter()
                .map(|p| from_tree(p, ety))
                .collect::<Option<Vec<_>>>()?;
            Some(Val::List(vs, *bound))
        }
        Ty::Option(inner) => match t {
            Tree::L(u) if **u == Tree::Unit => Some(Val::None),
            Tree::R(x) => Some(Val::Some(Box::new(from_tree(x, inner)?))),
            _ => None,
        },
        Ty::Either(l, r) => match t {
            Tree::L(x) => Some(Val::Left(Box::new(from_tree(x, l)?))),
            Tree::R(x) => Some(Val::Right(Box::new(from_tree(x, r)?))),
            _ => None,
        },
        Ty::Alias(n) => panic!("from_tree at unresolved alias {n}"),
    }
}

/// Does the value shape inhabit the type shape?
pub fn tree_fits(t: &Tree, ty: &TyTree) -> bool {
    match (t, ty) {
        (Tree::Unit, TyTree::Unit) => true,
        (Tree::L(x), TyTree::Sum(l, _)) => tree_fits(x, l),
        (Tree::R(x), TyTree::Sum(_, r)) => tree_fits(x, r),
        (Tree::P(a, b), TyTree::Prod(l, r)) => tree_fits(a, l) && tree_fits(b, r),
        _ => false,
    }
}

/// "Prune" a value shape to a coarser type shape in which some sub-terms have become unit
/// (what Simplicity does to parts of a witness that the program never inspects).
pub fn prune_tree(t: &Tree, ty: &TyTree) -> Option<Tree> {
    match (t, ty) {
        (_, TyTree::Unit) => Some(Tree::Unit),
        (Tree::L(x), TyTree::Sum(l, _)) => Some(Tree::l(prune_tree(x, l)?)),
        (Tree::R(x), TyTree::Sum(_, r)) => Some(Tree::r(prune_tree(x, r)?)),
        (Tree::P(a, b), TyTree::Prod(l, r)) => Some(Tree::p(prune_tree(a, l)?, prune_tree(b, r)?)),
        _ => None,
    }
}

/// `obs` equals `pres` except that sub-terms of `pres` may have been replaced by unit in `obs`
/// (Simplicity gives type 1 to every part of a value that the program never inspects).
pub fn pruned_match(obs: &Tree, pres: &Tree) -> bool {
    match (obs, pres) {
        (Tree::Unit, _) => true,
        (Tree::L(a), Tree::L(b)) | (Tree::R(a), Tree::R(b)) => pruned_match(a, b),
        (Tree::P(a1, a2), Tree::P(b1, b2)) => pruned_match(a1, b1) && pruned_match(a2, b2),
        _ => false,
    }
}
