//! G2 — near-miss mutator on the harness AST: one edit per mutant. The static checker (M7)
//! classifies every mutant, so the operators need not know whether an edit breaks a rule.

use crate::ast::*;
use crate::props::c17::for_each_ty;
use crate::rng::Rng;

fn edit_type(t: &mut Ty, rng: &mut Rng) -> &'static str {
    let widths = [1u16, 2, 4, 8, 16, 32, 64, 128, 256];
    match (t.clone(), rng.below(10)) {
        (Ty::U(n), 0..=3) => {
            let mut m = *rng.pick(&widths);
            if m == n {
                m = if n == 8 { 16 } else { 8 };
            }
            *t = Ty::U(m);
            "type: integer width changed"
        }
        (Ty::Bool, 0..=3) => {
            *t = Ty::U(1);
            "type: bool replaced by u1 (same layout)"
        }
        (Ty::Array(e, n), 0..=4) => {
            *t = Ty::Array(e, if n > 0 && rng.chance(1, 2) { n - 1 } else { n + 1 });
            "type: array size changed by one"
        }
        (Ty::List(e, b), 0..=4) => {
            let nb = match rng.below(4) {
                0 => b * 2,
                1 if b >= 4 => b / 2,
                2 => b + 1,
                _ => 1,
            };
            *t = Ty::List(e, nb);
            "type: list bound changed"
        }
        (Ty::Tuple(mut v), 0..=4) => {
            if !v.is_empty() && rng.chance(1, 2) {
                v.pop();
            } else {
                v.push(Ty::U(8));
            }
            *t = Ty::Tuple(v);
            "type: tuple arity changed by one"
        }
        (Ty::Option(inner), 0..=3) => {
            *t = *inner;
            "type: Option removed"
        }
        (Ty::Either(l, r), 0..=3) => {
            *t = Ty::Either(r, l);
            "type: Either sides swapped"
        }
        (Ty::Alias(_), 0..=4) => {
            *t = Ty::Alias("UndefinedAlias".into());
            "type: alias replaced by an undefined alias"
        }
        (old, 5) => {
            *t = Ty::opt(old);
            "type: wrapped in Option"
        }
        (old, 6) => {
            *t = Ty::Tuple(vec![old]);
            "type: wrapped in a 1-tuple (same layout)"
        }
        (old, 7) => {
            *t = Ty::arr(old, 1);
            "type: wrapped in a 1-array (same layout)"
        }
        (_, 8) => {
            *t = Ty::Alias("UndefinedAlias".into());
            "type: replaced by an undefined alias"
        }
        _ => {
            *t = crate::vals::random_ty(rng, 1, 8);
            "type: replaced by a random type"
        }
    }
}

fn count_exprs(p: &Program) -> usize {
    p.funcs().map(|f| f.body.size()).sum()
}

fn all_var_names(p: &Program) -> Vec<String> {
    crate::props::c17::names_of(p, crate::props::c17::Role::Variable)
}

fn edit_expr(e: &mut Expr, rng: &mut Rng, vars: &[String], witnesses: &[String], funcs: &[String]) -> &'static str {
    let lit = |rng: &mut Rng| -> Expr {
        match rng.below(6) {
            0 => Expr::Bool(true),
            1 => Expr::Int("7".into()),
            2 => Expr::unit(),
            3 => Expr::None_,
            4 => Expr::Array(vec![Expr::Int("1".into()), Expr::Int("2".into())]),
            _ => Expr::Int("0x07".into()),
        }
    };
    match e {
        Expr::Tuple(v) | Expr::Array(v) if rng.chance(2, 3) => {
            if !v.is_empty() && rng.chance(1, 2) {
                v.pop();
                "constructor: one element fewer"
            } else {
                let x = v.last().cloned().unwrap_or(Expr::Int("1".into()));
                v.push(x);
                "constructor: one element more"
            }
        }
        Expr::List(v) if rng.chance(2, 3) => {
            let x = v.last().cloned().unwrap_or(Expr::Int("1".into()));
            let target = *rng.pick(&[2usize, 4, 8, 16]);
            if v.len() < target && target <= 16 {
                while v.len() < target {
                    v.push(x.clone());
                }
                "list literal: padded to a power-of-two length (maybe the bound)"
            } else {
                v.pop();
                "list literal: one element fewer"
            }
        }
        Expr::Call(c) if rng.chance(3, 4) => match rng.below(8) {
            0 if !c.args.is_empty() => {
                c.args.pop();
                "call: one argument fewer"
            }
            1 => {
                let x = c.args.last().cloned().unwrap_or(Expr::Int("1".into()));
                c.args.push(x);
                "call: one argument more"
            }
            2 if c.args.len() >= 2 => {
                c.args.swap(0, 1);
                "call: first two arguments swapped"
            }
            3 => match &mut c.name {
                CallName::Fn(n) | CallName::Fold(n, _) | CallName::ForWhile(n) => {
                    *n = if !funcs.is_empty() && rng.chance(1, 2) { rng.pick(funcs).clone() } else { "undefined_fn".into() };
                    "call: function name changed"
                }
                CallName::Jet(n) => {
                    *n = rng.pick(&["verify", "check_sig_verify", "no_such_jet", "add_16", "eq_8", "lt_32", "sha_256_iv"]).to_string();
                    "call: jet name changed"
                }
                other => {
                    *other = CallName::Unwrap;
                    "call: builtin replaced by unwrap"
                }
            },
            4 => match &mut c.name {
                CallName::Cast(t) | CallName::UnwrapLeft(t) | CallName::UnwrapRight(t) | CallName::IsNone(t) => edit_type(t, rng),
                CallName::Fold(_, b) => {
                    *b = match rng.below(3) {
                        0 => *b * 2,
                        1 => 3,
                        _ => (*b / 2).max(1),
                    };
                    "call: fold bound changed"
                }
                CallName::Assert => {
                    c.name = CallName::Dbg;
                    "call: assert! replaced by dbg!"
                }
                CallName::Dbg => {
                    c.name = CallName::Assert;
                    "call: dbg! replaced by assert!"
                }
                CallName::Unwrap => {
                    c.name = CallName::UnwrapLeft(Ty::U(8));
                    "call: unwrap replaced by unwrap_left"
                }
                _ => {
                    c.name = CallName::Panic;
                    "call: replaced by panic!"
                }
            },
            _ => {
                *e = lit(rng);
                "expression: call replaced by a literal"
            }
        },
        Expr::Var(n) if rng.chance(3, 4) => {
            *n = if !vars.is_empty() && rng.chance(2, 3) { rng.pick(vars).clone() } else { "undefined_var".into() };
            "variable: name changed"
        }
        Expr::Witness(n) if rng.chance(3, 4) => {
            *n = if !witnesses.is_empty() { rng.pick(witnesses).clone() } else { "W_NEW".into() };
            "witness: name changed (maybe reused)"
        }
        Expr::Param(n) if rng.chance(1, 2) => {
            *n = "P0".into();
            "parameter: name changed"
        }
        Expr::Int(s) if rng.chance(3, 4) => {
            let new = if let Some(h) = s.strip_prefix("0x") {
                match rng.below(3) {
                    0 => format!("0x{h}0"),
                    1 if h.len() > 1 => format!("0x{}", &h[1..]),
                    _ => format!("0x{h}00"),
                }
            } else if let Some(b) = s.strip_prefix("0b") {
                if b.len() > 1 && rng.chance(1, 2) {
                    format!("0b{}", &b[1..])
                } else {
                    format!("0b{b}1")
                }
            } else {
                rng.pick(&["2", "4", "16", "256", "65536", "4294967296", "18446744073709551616", "340282366920938463463374607431768211456", "115792089237316195423570985008687907853269984665640564039457584007913129639936"]).to_string()
            };
            *s = new;
            "literal: value or digit count changed"
        }
        Expr::Bool(_) if rng.chance(1, 2) => {
            *e = Expr::Int("1".into());
            "literal: Boolean replaced by an integer"
        }
        Expr::Match(_, arms) if rng.chance(3, 4) => match rng.below(4) {
            0 => {
                arms[0].pat = match &arms[0].pat {
                    MatchPat::True | MatchPat::False => MatchPat::None_,
                    MatchPat::None_ => MatchPat::True,
                    MatchPat::Some_(x, t) => MatchPat::Left(x.clone(), t.clone()),
                    MatchPat::Left(x, t) => MatchPat::Some_(x.clone(), t.clone()),
                    MatchPat::Right(x, t) => MatchPat::Some_(x.clone(), t.clone()),
                };
                "match: first arm pattern of another kind"
            }
            1 => {
                let mut done = "match: no typed pattern";
                for arm in arms.iter_mut() {
                    match &mut arm.pat {
                        MatchPat::Some_(_, t) | MatchPat::Left(_, t) | MatchPat::Right(_, t) => {
                            done = edit_type(t, rng);
                            break;
                        }
                        _ => {}
                    }
                }
                done
            }
            2 => {
                let (a, b) = arms.split_at_mut(1);
                std::mem::swap(&mut a[0].body, &mut b[0].body);
                "match: arm bodies swapped"
            }
            _ => {
                arms[1].pat = arms[0].pat.clone();
                "match: both arms have the same pattern"
            }
        },
        Expr::Block(stmts, last) if rng.chance(4, 5) => match rng.below(6) {
            0 if !stmts.is_empty() => {
                let k = rng.below(stmts.len());
                stmts.remove(k);
                "block: statement deleted"
            }
            1 if !stmts.is_empty() => {
                let k = rng.below(stmts.len());
                let s = stmts[k].clone();
                stmts.insert(k, s);
                "block: statement duplicated"
            }
            2 if stmts.len() >= 2 => {
                let k = rng.below(stmts.len() - 1);
                stmts.swap(k, k + 1);
                "block: adjacent statements swapped"
            }
            3 => {
                if last.is_some() {
                    *last = None;
                    "block: final expression removed"
                } else {
                    *last = Some(Box::new(Expr::Int("1".into())));
                    "block: final expression added"
                }
            }
            4 if !stmts.is_empty() => {
                // move the first statement to the end (use before definition)
                let s = stmts.remove(0);
                stmts.push(s);
                "block: first statement moved to the end"
            }
            _ => {
                stmts.push(Stmt::Expr(Expr::Int("1".into())));
                "block: non-unit expression statement added"
            }
        },
        Expr::Some_(x) | Expr::Left(x) | Expr::Right(x) | Expr::Paren(x) if rng.chance(1, 2) => {
            let inner = (**x).clone();
            *e = inner;
            "expression: constructor removed"
        }
        _ => match rng.below(3) {
            0 => {
                let inner = e.clone();
                *e = Expr::Some_(Box::new(inner));
                "expression: wrapped in Some"
            }
            1 => {
                let inner = e.clone();
                *e = Expr::Tuple(vec![inner]);
                "expression: wrapped in a 1-tuple"
            }
            _ => {
                *e = lit(rng);
                "expression: replaced by a literal"
            }
        },
    }
}

fn edit_pattern(p: &mut Pat, rng: &mut Rng) -> &'static str {
    match p {
        Pat::Tuple(v) | Pat::Array(v) if !v.is_empty() && rng.chance(3, 4) => match rng.below(4) {
            0 => {
                v.pop();
                "pattern: one component fewer"
            }
            1 => {
                v.push(Pat::Ignore);
                "pattern: one component more"
            }
            2 if v.len() >= 2 => {
                // duplicate a name
                let first = v[0].clone();
                let k = v.len() - 1;
                v[k] = first;
                "pattern: component repeated (maybe a duplicate name)"
            }
            _ => {
                let k = rng.below(v.len());
                edit_pattern(&mut v[k], rng)
            }
        },
        Pat::Tuple(v) => {
            let v = v.clone();
            *p = Pat::Array(v);
            "pattern: tuple pattern replaced by array pattern"
        }
        Pat::Array(v) => {
            let v = v.clone();
            *p = Pat::Tuple(v);
            "pattern: array pattern replaced by tuple pattern"
        }
        Pat::Id(_) => match rng.below(3) {
            0 => {
                *p = Pat::Ignore;
                "pattern: name replaced by `_`"
            }
            1 => {
                let old = p.clone();
                *p = Pat::Tuple(vec![old, Pat::Ignore]);
                "pattern: name replaced by a pair pattern"
            }
            _ => {
                *p = Pat::Id("renamed_binding".into());
                "pattern: binding renamed"
            }
        },
        Pat::Ignore => {
            *p = Pat::Tuple(vec![Pat::Ignore, Pat::Ignore]);
            "pattern: `_` replaced by a pair pattern"
        }
    }
}

fn edit_items(p: &mut Program, rng: &mut Rng) -> &'static str {
    let n = p.items.len();
    let main_idx = p.items.iter().position(|i| matches!(i, Item::Func(f) if f.name == "main"));
    match rng.below(14) {
        0 if n >= 2 => {
            let k = rng.below(n - 1);
            p.items.swap(k, k + 1);
            "items: adjacent items swapped"
        }
        1 if n >= 2 => {
            let it = p.items.remove(0);
            p.items.push(it);
            "items: first item moved behind main"
        }
        2 => {
            let k = rng.below(n);
            p.items.remove(k);
            "items: item deleted"
        }
        3 => {
            let k = rng.below(n);
            let it = p.items[k].clone();
            p.items.insert(k, it);
            "items: item duplicated"
        }
        4 => {
            if let Some(i) = main_idx {
                if let Item::Func(f) = &mut p.items[i] {
                    f.name = "mainx".into();
                }
            }
            "main: renamed"
        }
        5 => {
            if let Some(i) = main_idx {
                if let Item::Func(f) = &mut p.items[i] {
                    f.params.push(("x".into(), Ty::U(8)));
                }
            }
            "main: parameter added"
        }
        6 => {
            if let Some(i) = main_idx {
                if let Item::Func(f) = &mut p.items[i] {
                    f.ret = Some(Ty::U(8));
                }
            }
            "main: result type added"
        }
        7 => {
            if let Some(i) = main_idx {
                let it = p.items.remove(i);
                p.items.insert(0, it);
            }
            "main: moved to the front"
        }
        8 | 9 | 10 | 11 => {
            // edits of a non-main function's signature
            let idxs: Vec<usize> = p
                .items
                .iter()
                .enumerate()
                .filter(|(_, i)| matches!(i, Item::Func(f) if f.name != "main"))
                .map(|(i, _)| i)
                .collect();
            if idxs.is_empty() {
                return "items: no function to edit";
            }
            let k = *rng.pick(&idxs);
            if let Item::Func(f) = &mut p.items[k] {
                match rng.below(7) {
                    0 => {
                        f.params.push(("extra".into(), Ty::U(8)));
                        "function: parameter added"
                    }
                    1 if !f.params.is_empty() => {
                        f.params.pop();
                        "function: parameter removed"
                    }
                    2 if f.params.len() >= 2 => {
                        let n0 = f.params[0].0.clone();
                        let k = f.params.len() - 1;
                        f.params[k].0 = n0;
                        "function: two parameters share a name"
                    }
                    3 => {
                        f.name = format!("{}_renamed", f.name);
                        "function: definition renamed (calls now undefined)"
                    }
                    4 => {
                        if let Some(t) = &mut f.ret {
                            edit_type(t, rng)
                        } else {
                            f.ret = Some(Ty::U(8));
                            "function: result type added"
                        }
                    }
                    5 if !f.params.is_empty() => {
                        let k = rng.below(f.params.len());
                        edit_type(&mut f.params[k].1, rng)
                    }
                    _ => {
                        // a witness inside a function
                        if let Expr::Block(stmts, _) = &mut f.body {
                            stmts.insert(0, Stmt::Let(Pat::Ignore, Ty::U(8), Expr::Witness("W_IN_FN".into())));
                        }
                        "function: witness expression inside a function"
                    }
                }
            } else {
                "items: no function to edit"
            }
        }
        12 => {
            // an alias after its first use / alias edits
            if let Some(k) = p.items.iter().position(|i| matches!(i, Item::Alias(..))) {
                let it = p.items.remove(k);
                p.items.push(it);
                "alias: definition moved to the end"
            } else {
                p.items.insert(0, Item::Alias("Fresh".into(), Ty::List(Box::new(Ty::U(8)), 3)));
                "alias: with a list bound that is no power of two"
            }
        }
        _ => {
            if let Some(i) = main_idx {
                let it = p.items[i].clone();
                p.items.push(it);
            }
            "main: defined twice"
        }
    }
}

/// One mutant of `p`. Returns the operator's description.
pub fn mutate(p: &Program, rng: &mut Rng) -> (Program, &'static str) {
    let mut q = p.clone();
    let vars = all_var_names(p);
    let witnesses = crate::props::c17::names_of(p, crate::props::c17::Role::Witness);
    let funcs = crate::props::c17::names_of(p, crate::props::c17::Role::Function);
    let what = match rng.below(10) {
        0 | 1 => {
            // a type occurrence
            let mut n = 0;
            for_each_ty(&mut q, &mut |_| n += 1);
            n -= q.holes.len();
            if n == 0 {
                edit_items(&mut q, rng)
            } else {
                let k = rng.below(n);
                let mut i = 0;
                let mut what = "type: none";
                let mut r2 = rng.clone();
                let holes = std::mem::take(&mut q.holes);
                for_each_ty(&mut q, &mut |t| {
                    if i == k {
                        what = edit_type(t, &mut r2);
                    }
                    i += 1;
                });
                q.holes = holes;
                *rng = r2;
                what
            }
        }
        2 => edit_items(&mut q, rng),
        3 => {
            // a let pattern
            let mut n = 0;
            for f in q.funcs() {
                f.body.visit(&mut |e| {
                    if let Expr::Block(stmts, _) = e {
                        n += stmts.iter().filter(|s| matches!(s, Stmt::Let(..))).count();
                    }
                });
            }
            if n == 0 {
                edit_items(&mut q, rng)
            } else {
                let k = rng.below(n);
                let mut i = 0;
                let mut what = "pattern: none";
                let mut r2 = rng.clone();
                for f in q.funcs_mut() {
                    f.body.visit_mut(&mut |e| {
                        if let Expr::Block(stmts, _) = e {
                            for s in stmts.iter_mut() {
                                if let Stmt::Let(p, _, _) = s {
                                    if i == k {
                                        what = edit_pattern(p, &mut r2);
                                    }
                                    i += 1;
                                }
                            }
                        }
                    });
                }
                *rng = r2;
                what
            }
        }
        _ => {
            // an expression node
            let n = count_exprs(&q);
            let k = rng.below(n.max(1));
            let mut i = 0;
            let mut what = "expression: none";
            let mut r2 = rng.clone();
            let mut done = false;
            for f in q.funcs_mut() {
                f.body.visit_mut(&mut |e| {
                    if i == k && !done {
                        what = edit_expr(e, &mut r2, &vars, &witnesses, &funcs);
                        done = true;
                    }
                    i += 1;
                });
            }
            *rng = r2;
            what
        }
    };
    // a function body is a block by syntax
    for f in q.funcs_mut() {
        if !f.body.is_block() {
            let b = std::mem::replace(&mut f.body, Expr::Bool(false));
            f.body = Expr::block(vec![], Some(b));
        }
    }
    q.number_calls();
    (q, what)
}
