//! Conversions between the harness's own types and the public types of simfony / simplicity,
//! the panic monitor (M2) and the boundary recorder (M1) around the public API.

use std::cell::RefCell;
use std::collections::HashMap;
use std::panic::{catch_unwind, AssertUnwindSafe};
use std::sync::Arc;

use simfony::num::{NonZeroPow2Usize, U256 as SU256};
use simfony::simplicity;
use simfony::simplicity::jet::elements::ElementsEnv;
use simfony::simplicity::jet::Elements;
use simfony::simplicity::types::{CompleteBound, Final};
use simfony::simplicity::{BitIter, BitMachine, Cmr, RedeemNode, ValueRef};
use simfony::str::WitnessName;
use simfony::types::{TypeConstructible, TypeInner, UIntType};
use simfony::value::{UIntValue, ValueConstructible, ValueInner};
use simfony::{elements, Arguments, ResolvedType, Value, WitnessValues};

use crate::ast::{Ty, Val};
use crate::layout::{Tree, TyTree};
use crate::u256::U256;

pub type Env = ElementsEnv<Arc<elements::Transaction>>;

// ------------------------------------------------------------------------------------------
// M2: panic monitor

#[derive(Clone, Debug, PartialEq, Eq)]
pub struct PanicInfo {
    pub message: String,
    pub location: String,
}

thread_local! {
    static LAST_PANIC: RefCell<Option<PanicInfo>> = RefCell::new(None);
}

/// last panic of any thread (so that the main thread can report a dying worker)
pub static GLOBAL_LAST_PANIC: std::sync::Mutex<Option<PanicInfo>> = std::sync::Mutex::new(None);

pub fn install_panic_hook() {
    std::panic::set_hook(Box::new(|info| {
        let message = if let Some(s) = info.payload().downcast_ref::<&str>() {
            s.to_string()
        } else if let Some(s) = info.payload().downcast_ref::<String>() {
            s.clone()
        } else {
            "<non-string panic payload>".to_string()
        };
        let location = info
            .location()
            .map(|l| {
                let f = l.file();
                // keep the crate-relative tail so that signatures are stable across machines
                let f = f
                    .rsplit_once("/registry/src/")
                    .map(|(_, t)| t.split_once('/').map(|(_, t)| t).unwrap_or(t))
                    .unwrap_or(f);
                let f = f.strip_prefix("/repo/").unwrap_or(f);
                format!("{}:{}", f, l.line())
            })
            .unwrap_or_default();
        if let Ok(mut g) = GLOBAL_LAST_PANIC.lock() {
            *g = Some(PanicInfo { message: message.clone(), location: location.clone() });
        }
        LAST_PANIC.with(|p| *p.borrow_mut() = Some(PanicInfo { message, location }));
    }));
}

/// Run `f`, converting a panic into a value.
pub fn guard<T>(f: impl FnOnce() -> T) -> Result<T, PanicInfo> {
    LAST_PANIC.with(|p| *p.borrow_mut() = None);
    match catch_unwind(AssertUnwindSafe(f)) {
        Ok(v) => Ok(v),
        Err(_) => Err(LAST_PANIC.with(|p| p.borrow_mut().take()).unwrap_or(PanicInfo {
            message: "<panic without hook record>".into(),
            location: String::new(),
        })),
    }
}

#[derive(Clone, Debug, PartialEq, Eq)]
pub enum Outcome<T> {
    Ok(T),
    Err(String),
    Panic(PanicInfo),
}

impl<T> Outcome<T> {
    pub fn is_ok(&self) -> bool {
        matches!(self, Outcome::Ok(_))
    }
    pub fn is_err(&self) -> bool {
        matches!(self, Outcome::Err(_))
    }
    pub fn is_panic(&self) -> bool {
        matches!(self, Outcome::Panic(_))
    }
    pub fn ok(self) -> Option<T> {
        match self {
            Outcome::Ok(v) => Some(v),
            _ => None,
        }
    }
    pub fn as_ref(&self) -> Outcome<&T> {
        match self {
            Outcome::Ok(v) => Outcome::Ok(v),
            Outcome::Err(e) => Outcome::Err(e.clone()),
            Outcome::Panic(p) => Outcome::Panic(p.clone()),
        }
    }
    pub fn brief(&self) -> String {
        match self {
            Outcome::Ok(_) => "Ok".into(),
            Outcome::Err(e) => format!("Err({})", last_line(e)),
            Outcome::Panic(p) => format!("Panic({} @ {})", p.message, p.location),
        }
    }
    pub fn map<U>(self, f: impl FnOnce(T) -> U) -> Outcome<U> {
        match self {
            Outcome::Ok(v) => Outcome::Ok(f(v)),
            Outcome::Err(e) => Outcome::Err(e),
            Outcome::Panic(p) => Outcome::Panic(p),
        }
    }
}

pub fn last_line(s: &str) -> String {
    s.lines().last().unwrap_or("").trim().to_string()
}

/// Wrap a fallible library call: Ok / Err(text) / Panic.
pub fn call<T, E: ToString>(f: impl FnOnce() -> Result<T, E>) -> Outcome<T> {
    match guard(f) {
        Ok(Ok(v)) => Outcome::Ok(v),
        Ok(Err(e)) => match guard(|| e.to_string()) {
            Ok(s) => Outcome::Err(s),
            Err(p) => Outcome::Panic(PanicInfo {
                message: format!("while rendering error: {}", p.message),
                location: p.location,
            }),
        },
        Err(p) => Outcome::Panic(p),
    }
}

// ------------------------------------------------------------------------------------------
// Types and values

pub fn uint_type(bits: u16) -> UIntType {
    match bits {
        1 => UIntType::U1,
        2 => UIntType::U2,
        4 => UIntType::U4,
        8 => UIntType::U8,
        16 => UIntType::U16,
        32 => UIntType::U32,
        64 => UIntType::U64,
        128 => UIntType::U128,
        256 => UIntType::U256,
        _ => panic!("bad width {bits}"),
    }
}

/// Build a simfony type from a resolved harness type with the public Rust constructors.
pub fn to_sim_ty(t: &Ty) -> ResolvedType {
    match t {
        Ty::Bool => ResolvedType::boolean(),
        Ty::U(n) => ResolvedType::from(uint_type(*n)),
        Ty::Tuple(v) => ResolvedType::tuple(v.iter().map(to_sim_ty)),
        Ty::Array(t, n) => ResolvedType::array(to_sim_ty(t), *n),
        Ty::List(t, n) => ResolvedType::list(to_sim_ty(t), NonZeroPow2Usize::new(*n).expect("bound")),
        Ty::Option(t) => ResolvedType::option(to_sim_ty(t)),
        Ty::Either(l, r) => ResolvedType::either(to_sim_ty(l), to_sim_ty(r)),
        Ty::Alias(n) => panic!("to_sim_ty of alias {n}"),
    }
}

pub fn from_sim_ty(t: &ResolvedType) -> Ty {
    match t.as_inner() {
        TypeInner::Boolean => Ty::Bool,
        TypeInner::UInt(u) => Ty::U(u.bit_width().get() as u16),
        TypeInner::Tuple(v) => Ty::Tuple(v.iter().map(|x| from_sim_ty(x)).collect()),
        TypeInner::Array(t, n) => Ty::arr(from_sim_ty(t), *n),
        TypeInner::List(t, n) => Ty::list(from_sim_ty(t), n.get()),
        TypeInner::Option(t) => Ty::opt(from_sim_ty(t)),
        TypeInner::Either(l, r) => Ty::either(from_sim_ty(l), from_sim_ty(r)),
        _ => panic!("unknown TypeInner"),
    }
}

pub fn to_sim_uint(bits: u16, x: &U256) -> UIntValue {
    let lo = x.low_u128();
    match bits {
        1 => UIntValue::U1(lo as u8),
        2 => UIntValue::U2(lo as u8),
        4 => UIntValue::U4(lo as u8),
        8 => UIntValue::U8(lo as u8),
        16 => UIntValue::U16(lo as u16),
        32 => UIntValue::U32(lo as u32),
        64 => UIntValue::U64(lo as u64),
        128 => UIntValue::U128(lo),
        256 => UIntValue::U256(SU256::from_byte_array(x.0)),
        _ => panic!("bad width"),
    }
}

/// Build a simfony value with the public Rust constructors. `t` must be resolved and `v` of type `t`.
pub fn to_sim_val(v: &Val, t: &Ty) -> Value {
    match (v, t) {
        (Val::Bool(b), Ty::Bool) => Value::from(*b),
        (Val::U(bits, x), Ty::U(n)) if bits == n => Value::from(to_sim_uint(*bits, x)),
        (Val::Tuple(vs), Ty::Tuple(ts)) if vs.len() == ts.len() => {
            Value::tuple(vs.iter().zip(ts).map(|(v, t)| to_sim_val(v, t)))
        }
        (Val::Array(vs), Ty::Array(et, n)) if vs.len() == *n => {
            Value::array(vs.iter().map(|v| to_sim_val(v, et)), to_sim_ty(et))
        }
        (Val::List(vs, b), Ty::List(et, n)) if b == n => Value::list(
            vs.iter().map(|v| to_sim_val(v, et)),
            to_sim_ty(et),
            NonZeroPow2Usize::new(*n).unwrap(),
        ),
        (Val::None, Ty::Option(it)) => Value::none(to_sim_ty(it)),
        (Val::Some(x), Ty::Option(it)) => Value::some(to_sim_val(x, it)),
        (Val::Left(x), Ty::Either(l, r)) => Value::left(to_sim_val(x, l), to_sim_ty(r)),
        (Val::Right(x), Ty::Either(l, r)) => Value::right(to_sim_ty(l), to_sim_val(x, r)),
        _ => panic!("to_sim_val: value {v:?} is not of type {t:?}"),
    }
}

pub fn from_sim_val(v: &Value) -> Val {
    match v.inner() {
        ValueInner::Boolean(b) => Val::Bool(*b),
        ValueInner::UInt(u) => match u {
            UIntValue::U1(x) => Val::u(1, *x as u128),
            UIntValue::U2(x) => Val::u(2, *x as u128),
            UIntValue::U4(x) => Val::u(4, *x as u128),
            UIntValue::U8(x) => Val::u(8, *x as u128),
            UIntValue::U16(x) => Val::u(16, *x as u128),
            UIntValue::U32(x) => Val::u(32, *x as u128),
            UIntValue::U64(x) => Val::u(64, *x as u128),
            UIntValue::U128(x) => Val::u(128, *x),
            UIntValue::U256(x) => Val::U(256, U256(x.to_byte_array())),
        },
        ValueInner::Tuple(vs) => Val::Tuple(vs.iter().map(from_sim_val).collect()),
        ValueInner::Array(vs) => Val::Array(vs.iter().map(from_sim_val).collect()),
        ValueInner::List(vs, b) => Val::List(vs.iter().map(from_sim_val).collect(), b.get()),
        ValueInner::Option(None) => Val::None,
        ValueInner::Option(Some(x)) => Val::Some(Box::new(from_sim_val(x))),
        ValueInner::Either(simfony::either::Either::Left(x)) => Val::Left(Box::new(from_sim_val(x))),
        ValueInner::Either(simfony::either::Either::Right(x)) => {
            Val::Right(Box::new(from_sim_val(x)))
        }
    }
}

pub fn wname(s: &str) -> WitnessName {
    WitnessName::from_str_unchecked(s)
}

pub fn witness_values(m: &[(String, Value)]) -> WitnessValues {
    let mut h = HashMap::new();
    for (k, v) in m {
        h.insert(wname(k), v.clone());
    }
    WitnessValues::from(h)
}

pub fn arguments(m: &[(String, Value)]) -> Arguments {
    let mut h = HashMap::new();
    for (k, v) in m {
        h.insert(wname(k), v.clone());
    }
    Arguments::from(h)
}

// ------------------------------------------------------------------------------------------
// Simplicity values and types  <->  trees

pub fn tree_of(v: ValueRef) -> Tree {
    if v.is_unit() {
        Tree::Unit
    } else if let Some(l) = v.as_left() {
        Tree::l(tree_of(l))
    } else if let Some(r) = v.as_right() {
        Tree::r(tree_of(r))
    } else if let Some((a, b)) = v.as_product() {
        Tree::p(tree_of(a), tree_of(b))
    } else {
        unreachable!("value is unit, sum or product")
    }
}

pub fn tytree_of(t: &Final) -> std::rc::Rc<TyTree> {
    use std::rc::Rc;
    match t.bound() {
        CompleteBound::Unit => crate::layout::ty_unit(),
        CompleteBound::Sum(l, r) => Rc::new(TyTree::Sum(tytree_of(l), tytree_of(r))),
        CompleteBound::Product(l, r) => Rc::new(TyTree::Prod(tytree_of(l), tytree_of(r))),
    }
}

/// Build a Simplicity value of type `ty` from a tree. None if the shape does not fit.
pub fn value_of_tree(t: &Tree, ty: &Arc<Final>) -> Option<simplicity::Value> {
    match (t, ty.bound()) {
        (Tree::Unit, CompleteBound::Unit) => Some(simplicity::Value::unit()),
        (Tree::L(x), CompleteBound::Sum(l, r)) => {
            Some(simplicity::Value::left(value_of_tree(x, l)?, r.clone()))
        }
        (Tree::R(x), CompleteBound::Sum(l, r)) => {
            Some(simplicity::Value::right(l.clone(), value_of_tree(x, r)?))
        }
        (Tree::P(a, b), CompleteBound::Product(l, r)) => Some(simplicity::Value::product(
            value_of_tree(a, l)?,
            value_of_tree(b, r)?,
        )),
        _ => None,
    }
}

// ------------------------------------------------------------------------------------------
// Running a single jet through the real C implementation

pub struct JetRunner {
    cache: HashMap<Elements, Arc<RedeemNode<Elements>>>,
    pub env: Env,
    pub calls: u64,
}

impl JetRunner {
    pub fn new(env: Env) -> Self {
        JetRunner {
            cache: HashMap::new(),
            env,
            calls: 0,
        }
    }

    fn node(&mut self, jet: Elements) -> Arc<RedeemNode<Elements>> {
        use simplicity::node::{ConstructNode, JetConstructible, SimpleFinalizer};
        self.cache
            .entry(jet)
            .or_insert_with(|| {
                let ctx = simplicity::types::Context::new();
                let c = Arc::<ConstructNode<Elements>>::jet(&ctx, jet);
                c.finalize_types_non_program()
                    .expect("jet types")
                    .finalize(&mut SimpleFinalizer::new(None.into_iter()))
                    .expect("jet finalize")
            })
            .clone()
    }

    /// Ok(Some(out)) = jet succeeded, Ok(None) = jet failed, Err = input does not fit the jet.
    pub fn run(&mut self, jet: Elements, input: &Tree) -> Result<Option<Tree>, String> {
        let node = self.node(jet);
        self.calls += 1;
        let src = &node.arrow().source;
        let v = value_of_tree(input, src)
            .ok_or_else(|| format!("input {} does not fit source type of {jet}", input.brief()))?;
        let mut mac = BitMachine::for_program(&node).map_err(|e| e.to_string())?;
        mac.input(&v).map_err(|e| e.to_string())?;
        match mac.exec(&node, &self.env) {
            Ok(out) => Ok(Some(tree_of(out.as_ref()))),
            Err(simplicity::bit_machine::ExecutionError::JetFailed(_)) => Ok(None),
            Err(e) => Err(e.to_string()),
        }
    }
}

pub fn cmr_bytes(c: Cmr) -> [u8; 32] {
    c.to_byte_array()
}

pub fn hex(b: &[u8]) -> String {
    b.iter().map(|x| format!("{x:02x}")).collect()
}

pub fn decode_redeem(prog: &[u8], wit: &[u8]) -> Outcome<Arc<RedeemNode<Elements>>> {
    call(|| {
        RedeemNode::<Elements>::decode(
            BitIter::from(prog.to_vec().into_iter()),
            BitIter::from(wit.to_vec().into_iter()),
        )
    })
}

/// Run a redeem program on the real Bit Machine. Ok(Ok(())) success, Ok(Err(text)) failure.
pub fn exec_redeem(node: &RedeemNode<Elements>, env: &Env) -> Outcome<Result<(), String>> {
    match guard(|| {
        let mut mac = match BitMachine::for_program(node) {
            Ok(m) => m,
            Err(e) => return Err(format!("limit: {e}")),
        };
        match mac.exec(node, env) {
            Ok(_) => Ok(()),
            Err(e) => Err(e.to_string()),
        }
    }) {
        Ok(r) => Outcome::Ok(r),
        Err(p) => Outcome::Panic(p),
    }
}
