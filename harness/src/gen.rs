//! G1 — type-directed generator of well-typed programs covering every expression form and
//! type constructor of the language.

use std::collections::HashMap;

use crate::ast::*;
use crate::golden::Golden;
use crate::layout::layout_type;
use crate::rng::Rng;
use crate::vals::*;

#[derive(Clone, Debug)]
pub struct GenCfg {
    pub max_depth: usize,
    pub ty_depth: usize,
    pub max_list: usize,
    pub max_stmts: usize,
    pub size_budget: isize,
    pub max_witnesses: usize,
    pub max_params: usize,
    pub functions: bool,
    pub jets: bool,
    /// allow every jet of the golden table (else only the light core families)
    pub all_jets: bool,
    pub loops: bool,
    pub probes: bool,
    /// steer the program towards a panic with this probability (percent)
    pub panic_pct: usize,
    pub aliases: bool,
}

impl Default for GenCfg {
    fn default() -> Self {
        GenCfg {
            max_depth: 4,
            ty_depth: 2,
            max_list: 16,
            max_stmts: 6,
            size_budget: 90,
            max_witnesses: 8,
            max_params: 0,
            functions: true,
            jets: true,
            all_jets: false,
            loops: true,
            probes: true,
            panic_pct: 15,
            aliases: true,
        }
    }
}

#[derive(Clone, Debug)]
struct Scope {
    vars: Vec<(String, Ty)>,
    in_main: bool,
}

impl Scope {
    fn visible(&self, ty: &Ty) -> Vec<String> {
        // a name is usable if its *latest* binding has the wanted type
        let mut seen: Vec<&str> = vec![];
        let mut out = vec![];
        for (n, t) in self.vars.iter().rev() {
            if seen.contains(&n.as_str()) {
                continue;
            }
            seen.push(n);
            if t == ty {
                out.push(n.clone());
            }
        }
        out
    }
}

pub struct Gen<'a> {
    pub rng: Rng,
    pub cfg: GenCfg,
    pub golden: &'a Golden,
    pub prog: Program,
    pub witnesses: Vec<(String, Ty)>,
    pub params: Vec<(String, Ty)>,
    funcs: Vec<(String, Vec<Ty>, Ty)>,
    budget: isize,
    next_name: usize,
    light_jets: Vec<usize>,
    jets_by_ret: HashMap<Ty, Vec<usize>>,
    pub forms: HashMap<&'static str, usize>,
    /// probe leaves are compared with fresh witnesses `E<k>` instead of probe literals
    pub probe_leaves_as_witness: bool,
    /// out of 100: probability that a probe ignores a component of a tuple or array (`_`
    /// pattern), so that parts of a value stay uninspected next to inspected ones
    pub probe_skip_pct: usize,
    pub probe_leaf_witnesses: Vec<(String, Ty)>,
}

const VAR_NAMES: &[&str] = &[
    "a", "b", "c", "x", "y", "z", "acc", "tmp", "value", "left", "right", "n", "k", "res", "foo",
    "bar", "item", "state", "flag", "sum_", "v1", "v2", "data", "w",
];

pub fn is_light_jet(name: &str) -> bool {
    const FAMILIES: &[&str] = &[
        "add_", "subtract_", "multiply_", "divide_", "modulo_", "div_mod_", "divides_", "eq_", "lt_",
        "le_", "min_", "max_", "median_", "and_", "or_", "xor_", "xor_xor_", "maj_", "ch_",
        "complement_", "some_", "all_", "is_zero_", "is_one_", "increment_", "decrement_", "negate_",
        "full_add_", "full_subtract_", "full_multiply_", "full_increment_", "full_decrement_",
        "low_", "high_", "one_", "left_shift_", "right_shift_", "left_rotate_", "right_rotate_",
        "left_shift_with_", "right_shift_with_", "leftmost_", "rightmost_", "left_pad_low_",
        "left_pad_high_", "right_pad_low_", "right_pad_high_", "left_extend_", "right_extend_",
    ];
    if name == "verify" || name == "check_sig_verify" {
        return false;
    }
    FAMILIES.iter().any(|f| {
        name.strip_prefix(f)
            .map_or(false, |rest| rest.chars().all(|c| c.is_ascii_digit() || c == '_'))
    })
}

impl<'a> Gen<'a> {
    pub fn new(seed_rng: Rng, cfg: GenCfg, golden: &'a Golden) -> Self {
        let mut jets_by_ret: HashMap<Ty, Vec<usize>> = HashMap::new();
        let mut light = vec![];
        for (i, s) in golden.sigs.iter().enumerate() {
            if s.name == "verify" || s.name == "check_sig_verify" {
                continue;
            }
            let l = is_light_jet(&s.name);
            if l {
                light.push(i);
            }
            if l || cfg.all_jets {
                jets_by_ret.entry(s.rret.clone()).or_default().push(i);
            }
        }
        Gen {
            rng: seed_rng,
            budget: cfg.size_budget,
            cfg,
            golden,
            prog: Program::default(),
            witnesses: vec![],
            params: vec![],
            funcs: vec![],
            next_name: 0,
            light_jets: light,
            jets_by_ret,
            forms: HashMap::new(),
            probe_leaves_as_witness: false,
            probe_skip_pct: 0,
            probe_leaf_witnesses: vec![],
        }
    }

    fn form(&mut self, f: &'static str) {
        *self.forms.entry(f).or_insert(0) += 1;
    }

    fn fresh(&mut self, prefix: &str) -> String {
        self.next_name += 1;
        format!("{prefix}{}", self.next_name)
    }

    fn var_name(&mut self, scope: &Scope) -> String {
        // deliberately reuse names now and then (shadowing)
        if !scope.vars.is_empty() && self.rng.chance(1, 4) {
            return self.rng.pick(&scope.vars).0.clone();
        }
        if self.rng.chance(1, 2) {
            self.rng.pick(VAR_NAMES).to_string()
        } else {
            self.fresh("v")
        }
    }

    pub fn ty(&mut self) -> Ty {
        let d = self.rng.below(self.cfg.ty_depth + 1);
        random_ty(&mut self.rng, d, self.cfg.max_list)
    }

    fn small_ty(&mut self) -> Ty {
        random_ty(&mut self.rng, 1, 4)
    }

    fn int_style(rng: &mut Rng, bits: u16) -> IntStyle {
        match rng.below(6) {
            0 if bits >= 8 => IntStyle::Hex,
            1 if bits <= 64 => IntStyle::Bin,
            _ => IntStyle::Dec,
        }
    }

    pub fn literal(&mut self, ty: &Ty) -> Expr {
        let v = random_val(ty, &mut self.rng);
        self.literal_of(&v, ty)
    }

    pub fn literal_of(&mut self, v: &Val, ty: &Ty) -> Expr {
        // byte arrays may be written as one hex string
        if let (Val::Array(vs), Ty::Array(et, n)) = (v, ty) {
            if **et == Ty::U(8) && *n > 0 && self.rng.chance(1, 3) {
                let mut s = String::from("0x");
                for b in vs {
                    s.push_str(&format!("{:02x}", b.as_u128()));
                }
                return Expr::Int(s);
            }
        }
        let mut rng = self.rng.clone();
        let e = val_to_expr(v, &mut |bits| Self::int_style(&mut rng, bits));
        self.rng = rng;
        e
    }

    /// An expression of type `ty` (resolved).
    pub fn expr(&mut self, ty: &Ty, scope: &mut Scope, depth: usize) -> Expr {
        self.budget -= 1;
        if depth == 0 || self.budget <= 0 {
            return self.leaf(ty, scope);
        }
        // weighted choice among applicable productions
        let mut opts: Vec<(&'static str, usize)> = vec![("lit", 3), ("ctor", 6)];
        if !scope.visible(ty).is_empty() {
            opts.push(("var", 8));
        }
        if scope.in_main && self.witnesses.len() < self.cfg.max_witnesses {
            opts.push(("witness", 3));
        }
        if self.cfg.max_params > 0 {
            opts.push(("param", 2));
        }
        opts.push(("block", 3));
        opts.push(("match", 3));
        opts.push(("paren", 1));
        opts.push(("cast", 2));
        opts.push(("unwrap", 2));
        opts.push(("dbg", 1));
        if self.cfg.functions {
            opts.push(("call", 3));
        }
        if self.cfg.jets && self.jets_by_ret.contains_key(ty) {
            opts.push(("jet", 6));
        }
        if *ty == Ty::Bool {
            opts.push(("is_none", 2));
        }
        if ty.is_unit() {
            opts.push(("assert", 4));
        }
        if self.cfg.loops && self.cfg.functions {
            opts.push(("fold", 1));
            if matches!(ty, Ty::Either(..)) {
                opts.push(("for_while", 2));
            }
        }
        let total: usize = opts.iter().map(|o| o.1).sum();
        let mut r = self.rng.below(total);
        let mut choice = "lit";
        for (n, w) in &opts {
            if r < *w {
                choice = n;
                break;
            }
            r -= w;
        }
        self.form(choice);
        let d = depth - 1;
        match choice {
            "lit" => self.literal(ty),
            "var" => {
                let vs = scope.visible(ty);
                Expr::Var(self.rng.pick(&vs).clone())
            }
            "witness" => self.new_witness(ty),
            "param" => self.param(ty),
            "ctor" => self.ctor(ty, scope, d),
            "block" => self.block(ty, scope, d),
            "match" => self.match_(ty, scope, d),
            "paren" => Expr::Paren(Box::new(self.expr(ty, scope, d))),
            "cast" => {
                let vars = cast_variants(ty);
                let src = self.rng.pick(&vars).clone();
                debug_assert_eq!(layout_type(&src), layout_type(ty), "{src:?} vs {ty:?}");
                let arg = self.expr(&src, scope, d);
                Expr::call(CallName::Cast(src), vec![arg])
            }
            "unwrap" => match self.rng.below(3) {
                0 => {
                    let arg = self.expr_biased(&Ty::opt(ty.clone()), scope, d);
                    Expr::call(CallName::Unwrap, vec![arg])
                }
                1 => {
                    let other = self.small_ty();
                    let arg = self.expr_biased(&Ty::either(ty.clone(), other.clone()), scope, d);
                    Expr::call(CallName::UnwrapLeft(other), vec![arg])
                }
                _ => {
                    let other = self.small_ty();
                    let arg = self.expr_biased(&Ty::either(other.clone(), ty.clone()), scope, d);
                    Expr::call(CallName::UnwrapRight(other), vec![arg])
                }
            },
            "dbg" => {
                let arg = self.expr(ty, scope, d);
                Expr::call(CallName::Dbg, vec![arg])
            }
            "call" => self.fn_call(ty, scope, d),
            "jet" => {
                let cands = self.jets_by_ret.get(ty).unwrap().clone();
                let sig = self.golden.sigs[*self.rng.pick(&cands)].clone();
                let args = sig.rparams.iter().map(|t| self.expr(t, scope, d)).collect();
                Expr::jet(&sig.name, args)
            }
            "is_none" => {
                let it = self.small_ty();
                let arg = self.expr(&Ty::opt(it.clone()), scope, d);
                Expr::call(CallName::IsNone(it), vec![arg])
            }
            "assert" => {
                let arg = self.bool_probe_or_expr(scope, d);
                Expr::call(CallName::Assert, vec![arg])
            }
            "fold" => self.fold(ty, scope, d),
            "for_while" => self.for_while(ty, scope, d),
            _ => unreachable!(),
        }
    }

    fn leaf(&mut self, ty: &Ty, scope: &mut Scope) -> Expr {
        let vs = scope.visible(ty);
        if !vs.is_empty() && self.rng.chance(2, 3) {
            self.form("var");
            return Expr::Var(self.rng.pick(&vs).clone());
        }
        if scope.in_main && self.witnesses.len() < self.cfg.max_witnesses && self.rng.chance(1, 4) {
            self.form("witness");
            return self.new_witness(ty);
        }
        self.form("lit");
        self.literal(ty)
    }

    fn new_witness(&mut self, ty: &Ty) -> Expr {
        let name = format!("W{}", self.witnesses.len());
        let name = match self.rng.below(4) {
            0 => name.to_lowercase(),
            1 => format!("{name}_x"),
            _ => name,
        };
        self.witnesses.push((name.clone(), ty.clone()));
        Expr::Witness(name)
    }

    fn param(&mut self, ty: &Ty) -> Expr {
        let same: Vec<String> = self
            .params
            .iter()
            .filter(|(_, t)| t == ty)
            .map(|(n, _)| n.clone())
            .collect();
        if !same.is_empty() && self.rng.chance(1, 2) {
            return Expr::Param(self.rng.pick(&same).clone());
        }
        if self.params.len() >= self.cfg.max_params {
            return match same.first() {
                Some(n) => Expr::Param(n.clone()),
                None => self.literal(ty),
            };
        }
        let name = format!("P{}", self.params.len());
        self.params.push((name.clone(), ty.clone()));
        Expr::Param(name)
    }

    /// Option / Either expression that is biased towards the variant that makes unwrap* succeed.
    fn expr_biased(&mut self, ty: &Ty, scope: &mut Scope, depth: usize) -> Expr {
        if self.rng.below(100) < self.cfg.panic_pct {
            return self.expr(ty, scope, depth);
        }
        self.ctor(ty, scope, depth)
    }

    fn ctor(&mut self, ty: &Ty, scope: &mut Scope, d: usize) -> Expr {
        match ty {
            Ty::Bool | Ty::U(_) => self.literal(ty),
            Ty::Tuple(ts) => Expr::Tuple(ts.iter().map(|t| self.expr(t, scope, d)).collect()),
            Ty::Array(t, n) => {
                if **t == Ty::U(8) && *n > 0 && self.rng.chance(1, 4) {
                    return self.literal(ty);
                }
                Expr::Array((0..*n).map(|_| self.expr(t, scope, d)).collect())
            }
            Ty::List(t, b) => {
                let len = self.rng.below(*b).min(6);
                Expr::List((0..len).map(|_| self.expr(t, scope, d)).collect())
            }
            Ty::Option(t) => {
                if self.rng.chance(1, 4) {
                    Expr::None_
                } else {
                    Expr::Some_(Box::new(self.expr(t, scope, d)))
                }
            }
            Ty::Either(l, r) => {
                if self.rng.chance(1, 2) {
                    Expr::Left(Box::new(self.expr(l, scope, d)))
                } else {
                    Expr::Right(Box::new(self.expr(r, scope, d)))
                }
            }
            Ty::Alias(_) => unreachable!(),
        }
    }

    fn pattern(&mut self, ty: &Ty, scope: &Scope, bound: &mut Vec<(String, Ty)>, depth: usize) -> Pat {
        let destructure = depth > 0 && self.rng.chance(1, 2);
        match ty {
            Ty::Tuple(ts) if destructure => {
                Pat::Tuple(ts.iter().map(|t| self.pattern(t, scope, bound, depth - 1)).collect())
            }
            Ty::Array(t, n) if destructure && *n <= 6 => {
                Pat::Array((0..*n).map(|_| self.pattern(t, scope, bound, depth - 1)).collect())
            }
            _ => {
                if self.rng.chance(1, 6) {
                    Pat::Ignore
                } else {
                    let mut name = self.var_name(scope);
                    while bound.iter().any(|(n, _)| *n == name) {
                        name = self.fresh("v");
                    }
                    bound.push((name.clone(), ty.clone()));
                    Pat::Id(name)
                }
            }
        }
    }

    /// Statements of a block followed by a final expression of type `ty`.
    fn block(&mut self, ty: &Ty, scope: &mut Scope, d: usize) -> Expr {
        let mark = scope.vars.len();
        let n = self.rng.below(self.cfg.max_stmts.min(3) + 1);
        let mut stmts = vec![];
        for _ in 0..n {
            self.stmt(scope, d, &mut stmts);
        }
        let last = if ty.is_unit() && self.rng.chance(1, 2) {
            None
        } else {
            Some(self.expr(ty, scope, d))
        };
        scope.vars.truncate(mark);
        Expr::block(stmts, last)
    }

    fn stmt(&mut self, scope: &mut Scope, d: usize, out: &mut Vec<Stmt>) {
        if self.rng.chance(1, 4) {
            // expression statement of unit type
            let e = self.expr(&Ty::unit(), scope, d);
            out.push(Stmt::Expr(e));
            return;
        }
        let ty = self.ty();
        let e = self.expr(&ty, scope, d);
        let mut bound = vec![];
        let p = self.pattern(&ty, scope, &mut bound, 2);
        out.push(Stmt::Let(p, ty, e));
        for (n, t) in &bound {
            scope.vars.push((n.clone(), t.clone()));
        }
        if self.cfg.probes && scope.in_main && self.rng.chance(2, 3) {
            for (n, t) in bound {
                if self.budget > -200 {
                    self.probe(&Expr::Var(n), &t, out, 0);
                }
            }
        }
    }

    fn match_(&mut self, ty: &Ty, scope: &mut Scope, d: usize) -> Expr {
        let kind = self.rng.below(3);
        let (sty, pats): (Ty, [MatchPat; 2]) = match kind {
            0 => (Ty::Bool, [MatchPat::False, MatchPat::True]),
            1 => {
                let t = self.small_ty();
                let x = self.var_name(scope);
                (Ty::opt(t.clone()), [MatchPat::None_, MatchPat::Some_(x, t)])
            }
            _ => {
                let l = self.small_ty();
                let r = self.small_ty();
                let x = self.var_name(scope);
                let y = self.var_name(scope);
                (
                    Ty::either(l.clone(), r.clone()),
                    [MatchPat::Left(x, l), MatchPat::Right(y, r)],
                )
            }
        };
        let scrut = self.expr(&sty, scope, d);
        let mut arms = vec![];
        for p in pats {
            let mark = scope.vars.len();
            match &p {
                MatchPat::Some_(n, t) | MatchPat::Left(n, t) | MatchPat::Right(n, t) => {
                    scope.vars.push((n.clone(), t.clone()))
                }
                _ => {}
            }
            let body = if self.rng.chance(1, 2) {
                self.block(ty, scope, d)
            } else {
                let e = self.expr(ty, scope, d);
                // a single-expression arm must not itself be a block
                if e.is_block() {
                    e
                } else {
                    e
                }
            };
            scope.vars.truncate(mark);
            arms.push(Arm { pat: p, body });
        }
        if self.rng.chance(1, 2) {
            arms.swap(0, 1);
        }
        let arms: [Arm; 2] = [arms[0].clone(), arms[1].clone()];
        Expr::Match(Box::new(scrut), Box::new(arms))
    }

    /// Define a new function `name(params) -> ret` whose body is generated here.
    fn define_fn(&mut self, prefix: &str, params: Vec<(String, Ty)>, ret: Ty, d: usize) -> String {
        let name = self.fresh(prefix);
        let mut fscope = Scope {
            vars: params.clone(),
            in_main: false,
        };
        let body = self.block(&ret, &mut fscope, d);
        let f = Func {
            name: name.clone(),
            params: params.clone(),
            ret: if ret.is_unit() && self.rng.chance(1, 2) { None } else { Some(ret.clone()) },
            body,
        };
        self.prog.items.push(Item::Func(f));
        self.funcs
            .push((name.clone(), params.into_iter().map(|p| p.1).collect(), ret));
        name
    }

    fn fn_call(&mut self, ty: &Ty, scope: &mut Scope, d: usize) -> Expr {
        let existing: Vec<usize> = self
            .funcs
            .iter()
            .enumerate()
            .filter(|(_, f)| f.2 == *ty && f.0.starts_with("f"))
            .map(|(i, _)| i)
            .collect();
        let idx = if !existing.is_empty() && self.rng.chance(2, 3) {
            *self.rng.pick(&existing)
        } else {
            let np = self.rng.below(4);
            let mut params = vec![];
            for i in 0..np {
                let t = self.ty();
                let n = if self.rng.chance(1, 2) {
                    self.rng.pick(VAR_NAMES).to_string()
                } else {
                    format!("p{i}")
                };
                if params.iter().any(|(m, _): &(String, Ty)| *m == n) {
                    params.push((format!("p{i}"), t));
                } else {
                    params.push((n, t));
                }
            }
            self.define_fn("f", params, ty.clone(), d);
            self.funcs.len() - 1
        };
        let (name, ptys, _) = self.funcs[idx].clone();
        let args = ptys.iter().map(|t| self.expr(t, scope, d)).collect();
        Expr::call(CallName::Fn(name), args)
    }

    fn fold(&mut self, ty: &Ty, scope: &mut Scope, d: usize) -> Expr {
        let ety = self.small_ty();
        let bound = *self.rng.pick(&[2usize, 4, 8, 16]);
        let bound = bound.min(self.cfg.max_list.max(2));
        let fname = self.define_fn(
            "g",
            vec![("elem".into(), ety.clone()), ("acc".into(), ty.clone())],
            ty.clone(),
            d,
        );
        let list = self.expr(&Ty::list(ety, bound), scope, d);
        let init = self.expr(ty, scope, d);
        Expr::call(CallName::Fold(fname, bound), vec![list, init])
    }

    fn for_while(&mut self, ty: &Ty, scope: &mut Scope, d: usize) -> Expr {
        let (bt, at) = match ty {
            Ty::Either(b, a) => ((**b).clone(), (**a).clone()),
            _ => unreachable!(),
        };
        let _ = bt;
        let cty = self.small_ty();
        let width = *self.rng.pick(&[1u16, 1, 2, 2, 4]);
        let fname = self.define_fn(
            "h",
            vec![
                ("acc".into(), at.clone()),
                ("ctx".into(), cty.clone()),
                ("i".into(), Ty::U(width)),
            ],
            ty.clone(),
            d,
        );
        let acc = self.expr(&at, scope, d);
        let ctx = self.expr(&cty, scope, d);
        Expr::call(CallName::ForWhile(fname), vec![acc, ctx])
    }

    /// In `main`: `eq_1(<bool>::into(E), HOLE)` (always true after the fill pass);
    /// elsewhere an arbitrary Boolean expression.
    fn bool_probe_or_expr(&mut self, scope: &mut Scope, d: usize) -> Expr {
        if !scope.in_main && self.rng.chance(7, 10) {
            return Expr::Bool(true);
        }
        let e = self.expr(&Ty::Bool, scope, d);
        if scope.in_main && self.cfg.probes && self.rng.below(100) >= self.cfg.panic_pct {
            let h = self.prog.new_hole(Ty::U(1));
            Expr::jet(
                "eq_1",
                vec![Expr::call(CallName::Cast(Ty::Bool), vec![e]), Expr::Hole(h)],
            )
        } else {
            e
        }
    }

    /// Emit statements that take `e: ty` apart down to integer leaves and compare each leaf
    /// with a probe literal on the real machine.
    fn probe_skips(&mut self) -> bool {
        self.probe_skip_pct > 0 && self.rng.below(100) < self.probe_skip_pct
    }

    pub fn probe(&mut self, e: &Expr, ty: &Ty, out: &mut Vec<Stmt>, level: usize) {
        self.budget -= 1;
        let assert_eq = |g: &mut Self, jet: &str, a: Expr, t: Ty| -> Stmt {
            let rhs = if g.probe_leaves_as_witness {
                // compare with a witness `E<k>` instead of a literal (program compiled once,
                // expected values supplied per execution)
                let name = format!("E{}", g.probe_leaf_witnesses.len());
                g.probe_leaf_witnesses.push((name.clone(), t));
                Expr::Witness(name)
            } else {
                Expr::Hole(g.prog.new_hole(t))
            };
            Stmt::Expr(Expr::call(CallName::Assert, vec![Expr::jet(jet, vec![a, rhs])]))
        };
        match ty {
            Ty::U(n) if [1u16, 8, 16, 32, 64, 256].contains(n) => {
                let s = assert_eq(self, &format!("eq_{n}"), e.clone(), ty.clone());
                out.push(s);
            }
            Ty::U(n) => {
                // u2, u4, u128: split in halves by the documented cast
                let half = Ty::U(n / 2);
                let pair = Ty::Tuple(vec![half.clone(), half.clone()]);
                let a = self.fresh("q");
                let b = self.fresh("q");
                out.push(Stmt::Let(
                    Pat::Tuple(vec![Pat::Id(a.clone()), Pat::Id(b.clone())]),
                    pair,
                    Expr::call(CallName::Cast(ty.clone()), vec![e.clone()]),
                ));
                self.probe(&Expr::Var(a), &half, out, level + 1);
                self.probe(&Expr::Var(b), &half, out, level + 1);
            }
            Ty::Bool => {
                let s = assert_eq(
                    self,
                    "eq_1",
                    Expr::call(CallName::Cast(Ty::Bool), vec![e.clone()]),
                    Ty::U(1),
                );
                out.push(s);
            }
            Ty::Tuple(ts) => {
                if ts.is_empty() {
                    return;
                }
                let names: Vec<String> = ts.iter().map(|_| self.fresh("q")).collect();
                let skip: Vec<bool> = ts.iter().map(|_| self.probe_skips()).collect();
                out.push(Stmt::Let(
                    Pat::Tuple(names.iter().zip(&skip).map(|(n, s)| if *s { Pat::Ignore } else { Pat::Id(n.clone()) }).collect()),
                    ty.clone(),
                    e.clone(),
                ));
                for ((n, t), s) in names.iter().zip(ts).zip(&skip) {
                    if !*s {
                        self.probe(&Expr::Var(n.clone()), t, out, level + 1);
                    }
                }
            }
            Ty::Array(t, n) => {
                if *n == 0 {
                    return;
                }
                if *n > 12 {
                    // probe only the ends of long arrays
                    return;
                }
                let names: Vec<String> = (0..*n).map(|_| self.fresh("q")).collect();
                let skip: Vec<bool> = names.iter().map(|_| self.probe_skips()).collect();
                out.push(Stmt::Let(
                    Pat::Array(names.iter().zip(&skip).map(|(n, s)| if *s { Pat::Ignore } else { Pat::Id(n.clone()) }).collect()),
                    ty.clone(),
                    e.clone(),
                ));
                for (n, s) in names.into_iter().zip(skip) {
                    if !s {
                        self.probe(&Expr::Var(n), t, out, level + 1);
                    }
                }
            }
            Ty::Option(t) => {
                let x = self.fresh("q");
                let hn = self.prog.new_hole(Ty::Bool);
                let hs = self.prog.new_hole(Ty::Bool);
                let mut inner = vec![Stmt::Expr(Expr::call(CallName::Assert, vec![Expr::Hole(hs)]))];
                self.probe(&Expr::Var(x.clone()), t, &mut inner, level + 1);
                let arms = [
                    Arm {
                        pat: MatchPat::None_,
                        body: Expr::call(CallName::Assert, vec![Expr::Hole(hn)]),
                    },
                    Arm {
                        pat: MatchPat::Some_(x, (**t).clone()),
                        body: Expr::block(inner, None),
                    },
                ];
                out.push(Stmt::Expr(Expr::Match(Box::new(e.clone()), Box::new(arms))));
            }
            Ty::Either(l, r) => {
                let x = self.fresh("q");
                let y = self.fresh("q");
                let hl = self.prog.new_hole(Ty::Bool);
                let hr = self.prog.new_hole(Ty::Bool);
                let mut li = vec![Stmt::Expr(Expr::call(CallName::Assert, vec![Expr::Hole(hl)]))];
                self.probe(&Expr::Var(x.clone()), l, &mut li, level + 1);
                let mut ri = vec![Stmt::Expr(Expr::call(CallName::Assert, vec![Expr::Hole(hr)]))];
                self.probe(&Expr::Var(y.clone()), r, &mut ri, level + 1);
                let arms = [
                    Arm {
                        pat: MatchPat::Left(x, (**l).clone()),
                        body: Expr::block(li, None),
                    },
                    Arm {
                        pat: MatchPat::Right(y, (**r).clone()),
                        body: Expr::block(ri, None),
                    },
                ];
                out.push(Stmt::Expr(Expr::Match(Box::new(e.clone()), Box::new(arms))));
            }
            Ty::List(t, b) => {
                if *b > 16 {
                    return;
                }
                // documented cast: List<A,2> = Option<A>; List<A,2^k> = (Option<[A;2^(k-1)]>, List<A,2^(k-1)>)
                let target = if *b == 2 {
                    Ty::opt((**t).clone())
                } else {
                    Ty::Tuple(vec![
                        Ty::opt(Ty::arr((**t).clone(), b / 2)),
                        Ty::list((**t).clone(), b / 2),
                    ])
                };
                let x = self.fresh("q");
                out.push(Stmt::Let(
                    Pat::Id(x.clone()),
                    target.clone(),
                    Expr::call(CallName::Cast(ty.clone()), vec![e.clone()]),
                ));
                self.probe(&Expr::Var(x), &target, out, level + 1);
            }
            Ty::Alias(_) => unreachable!(),
        }
    }

    /// Generate a whole program. Returns it together with the witness and parameter tables.
    pub fn program(mut self) -> Generated {
        let mut scope = Scope {
            vars: vec![],
            in_main: true,
        };
        let n = self.rng.range(1, self.cfg.max_stmts);
        let mut stmts = vec![];
        for _ in 0..n {
            let d = self.cfg.max_depth;
            self.stmt(&mut scope, d, &mut stmts);
        }
        if self.rng.below(100) < self.cfg.panic_pct / 2 {
            stmts.push(Stmt::Expr(Expr::call(CallName::Panic, vec![])));
        }
        let last = if self.rng.chance(1, 4) {
            Some(self.expr(&Ty::unit(), &mut scope, 2))
        } else {
            None
        };
        let main = Func {
            name: "main".into(),
            params: vec![],
            ret: if self.rng.chance(1, 6) { Some(Ty::unit()) } else { None },
            body: Expr::block(stmts, last),
        };
        self.prog.items.push(Item::Func(main));
        if self.cfg.aliases {
            self.aliasize();
        }
        self.prog.number_calls();
        Generated {
            prog: self.prog,
            witnesses: self.witnesses,
            params: self.params,
            forms: self.forms,
        }
    }

    /// Introduce type aliases: pick types that occur in annotations, define an alias in front
    /// of the first item that uses it and replace some occurrences.
    fn aliasize(&mut self) {
        let n_alias = self.rng.below(3);
        for k in 0..n_alias {
            // collect candidate types from let annotations of all functions
            let mut cands: Vec<Ty> = vec![];
            for f in self.prog.funcs() {
                f.body.visit(&mut |e| {
                    if let Expr::Block(stmts, _) = e {
                        for s in stmts {
                            if let Stmt::Let(_, t, _) = s {
                                cands.push(t.clone());
                            }
                        }
                    }
                });
                for (_, t) in &f.params {
                    cands.push(t.clone());
                }
            }
            if cands.is_empty() {
                return;
            }
            let target = self.rng.pick(&cands).clone();
            if matches!(target, Ty::Alias(_)) {
                continue;
            }
            let name = *self.rng.pick(&["MyTy", "Pair", "T", "Word", "Amt", "Flag_t", "Data8", "u8x", "Boolean"]);
            let name = format!("{name}{k}");
            let mut rng = self.rng.clone();
            // every written type (annotations, match binders, type arguments of calls), also
            // where the aliased type occurs as a component of a larger type
            fn replace(t: &mut Ty, target: &Ty, name: &str, rng: &mut Rng) {
                if *t == *target && rng.chance(2, 3) {
                    *t = Ty::Alias(name.to_string());
                    return;
                }
                match t {
                    Ty::Tuple(ts) => ts.iter_mut().for_each(|x| replace(x, target, name, rng)),
                    Ty::Array(x, _) | Ty::List(x, _) | Ty::Option(x) => replace(x, target, name, rng),
                    Ty::Either(l, r) => {
                        replace(l, target, name, rng);
                        replace(r, target, name, rng);
                    }
                    _ => {}
                }
            }
            // the existing alias definitions are left alone (an alias is defined before it is used)
            let mut later = std::mem::take(&mut self.prog.items);
            let n_alias_items = later.iter().take_while(|i| matches!(i, Item::Alias(..))).count();
            let earlier: Vec<Item> = later.drain(..n_alias_items).collect();
            self.prog.items = later;
            self.prog.for_each_annotation(&mut |t| replace(t, &target, &name, &mut rng));
            let mut items = earlier;
            items.append(&mut self.prog.items);
            self.prog.items = items;
            self.rng = rng;
            let pos = self
                .prog
                .items
                .iter()
                .take_while(|i| matches!(i, Item::Alias(..)))
                .count();
            self.prog.items.insert(pos, Item::Alias(name, target));
        }
        // builtin aliases: an annotation (or a component of one) whose type is the documented
        // definition of a builtin alias is sometimes written with one of the alias names
        if self.rng.chance(1, 2) {
            let mut rng = self.rng.clone();
            fn walk(t: &mut Ty, rng: &mut Rng) {
                if !matches!(t, Ty::Alias(_)) && rng.chance(1, 2) {
                    let names: Vec<&str> = BUILTIN_ALIASES.iter().copied().filter(|n| builtin_alias(n).as_ref() == Some(&*t)).collect();
                    if !names.is_empty() {
                        *t = Ty::Alias(rng.pick(&names).to_string());
                        return;
                    }
                }
                match t {
                    Ty::Tuple(ts) => ts.iter_mut().for_each(|x| walk(x, rng)),
                    Ty::Array(x, _) | Ty::List(x, _) | Ty::Option(x) => walk(x, rng),
                    Ty::Either(l, r) => {
                        walk(l, rng);
                        walk(r, rng);
                    }
                    _ => {}
                }
            }
            self.prog.for_each_annotation(&mut |t| walk(t, &mut rng));
            self.rng = rng;
        }
    }
}

#[derive(Clone, Debug)]
pub struct Generated {
    pub prog: Program,
    pub witnesses: Vec<(String, Ty)>,
    pub params: Vec<(String, Ty)>,
    pub forms: HashMap<&'static str, usize>,
}

pub fn generate(rng: Rng, cfg: GenCfg, golden: &Golden) -> Generated {
    let mut g = Gen::new(rng, cfg, golden);
    // a third of the programs inspect their values only in part
    if g.rng.chance(1, 3) {
        g.probe_skip_pct = 35;
    }
    g.program()
}
