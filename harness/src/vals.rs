//! G4 — type and value enumerators / samplers.

use crate::ast::{Ty, Val};
use crate::rng::Rng;
use crate::u256::U256;

pub const WIDTHS: [u16; 9] = [1, 2, 4, 8, 16, 32, 64, 128, 256];

pub fn random_uint(bits: u16, rng: &mut Rng) -> U256 {
    let mut b = [0u8; 32];
    match rng.below(8) {
        0 => {}                                   // zero
        1 => return U256::max_of(bits as usize),  // max
        2 => return U256::from_u128(1),           // one
        3 => {
            // a power of two or a power of two minus one
            let k = rng.below(bits as usize);
            let p = U256::pow2(k);
            if rng.chance(1, 2) {
                return p;
            } else {
                return p.wrapping_sub(&U256::from_u128(1)).0;
            }
        }
        _ => {
            let bytes = rng.bytes(32);
            b.copy_from_slice(&bytes);
        }
    }
    // mask to width
    let x = U256(b);
    let bits = bits as usize;
    let mut bs = Vec::with_capacity(bits);
    for i in 0..bits {
        bs.push(x.bit_msb(256, 256 - bits + i));
    }
    U256::from_bits_msb(&bs)
}

pub fn random_val(t: &Ty, rng: &mut Rng) -> Val {
    match t {
        Ty::Bool => Val::Bool(rng.chance(1, 2)),
        Ty::U(n) => Val::U(*n, random_uint(*n, rng)),
        Ty::Tuple(ts) => Val::Tuple(ts.iter().map(|t| random_val(t, rng)).collect()),
        Ty::Array(t, n) => Val::Array((0..*n).map(|_| random_val(t, rng)).collect()),
        Ty::List(t, b) => {
            let len = match rng.below(6) {
                0 => 0,
                1 => b - 1,
                2 => (b / 2).min(b - 1),
                3 => (b / 2).saturating_sub(1),
                _ => rng.below(*b),
            };
            Val::List((0..len).map(|_| random_val(t, rng)).collect(), *b)
        }
        Ty::Option(t) => {
            if rng.chance(1, 3) {
                Val::None
            } else {
                Val::Some(Box::new(random_val(t, rng)))
            }
        }
        Ty::Either(l, r) => {
            if rng.chance(1, 2) {
                Val::Left(Box::new(random_val(l, rng)))
            } else {
                Val::Right(Box::new(random_val(r, rng)))
            }
        }
        Ty::Alias(n) => panic!("random_val at alias {n}"),
    }
}

pub fn zero_val(t: &Ty) -> Val {
    match t {
        Ty::Bool => Val::Bool(false),
        Ty::U(n) => Val::U(*n, U256::ZERO),
        Ty::Tuple(ts) => Val::Tuple(ts.iter().map(zero_val).collect()),
        Ty::Array(t, n) => Val::Array((0..*n).map(|_| zero_val(t)).collect()),
        Ty::List(_, b) => Val::List(vec![], *b),
        Ty::Option(_) => Val::None,
        Ty::Either(l, _) => Val::Left(Box::new(zero_val(l))),
        Ty::Alias(n) => panic!("zero_val at alias {n}"),
    }
}

/// All values of a type if there are at most `cap` of them.
pub fn all_vals(t: &Ty, cap: usize) -> Option<Vec<Val>> {
    if t.cardinality(cap as u128 + 1) > cap as u128 {
        return None;
    }
    Some(match t {
        Ty::Bool => vec![Val::Bool(false), Val::Bool(true)],
        Ty::U(n) => (0..(1u128 << n)).map(|x| Val::u(*n, x)).collect(),
        Ty::Tuple(ts) => {
            let mut acc: Vec<Vec<Val>> = vec![vec![]];
            for t in ts {
                let vs = all_vals(t, cap)?;
                let mut next = vec![];
                for a in &acc {
                    for v in &vs {
                        let mut x = a.clone();
                        x.push(v.clone());
                        next.push(x);
                    }
                }
                acc = next;
            }
            acc.into_iter().map(Val::Tuple).collect()
        }
        Ty::Array(_, 0) => vec![Val::Array(vec![])],
        Ty::Array(t, n) => {
            let vs = all_vals(t, cap)?;
            let mut acc: Vec<Vec<Val>> = vec![vec![]];
            for _ in 0..*n {
                let mut next = vec![];
                for a in &acc {
                    for v in &vs {
                        let mut x = a.clone();
                        x.push(v.clone());
                        next.push(x);
                    }
                }
                acc = next;
            }
            acc.into_iter().map(Val::Array).collect()
        }
        Ty::List(t, b) => {
            let vs = all_vals(t, cap)?;
            let mut out = vec![];
            let mut acc: Vec<Vec<Val>> = vec![vec![]];
            for len in 0..*b {
                for a in &acc {
                    out.push(Val::List(a.clone(), *b));
                }
                if len + 1 < *b {
                    let mut next = vec![];
                    for a in &acc {
                        for v in &vs {
                            let mut x = a.clone();
                            x.push(v.clone());
                            next.push(x);
                        }
                    }
                    acc = next;
                }
            }
            out
        }
        Ty::Option(t) => {
            let mut out = vec![Val::None];
            out.extend(all_vals(t, cap)?.into_iter().map(|v| Val::Some(Box::new(v))));
            out
        }
        Ty::Either(l, r) => {
            let mut out: Vec<Val> = all_vals(l, cap)?
                .into_iter()
                .map(|v| Val::Left(Box::new(v)))
                .collect();
            out.extend(all_vals(r, cap)?.into_iter().map(|v| Val::Right(Box::new(v))));
            out
        }
        Ty::Alias(_) => return None,
    })
}

/// Boundary values: all-zero, all-max, and one value per sum alternative.
pub fn boundary_vals(t: &Ty) -> Vec<Val> {
    fn extreme(t: &Ty, hi: bool) -> Val {
        match t {
            Ty::Bool => Val::Bool(hi),
            Ty::U(n) => Val::U(*n, if hi { U256::max_of(*n as usize) } else { U256::ZERO }),
            Ty::Tuple(ts) => Val::Tuple(ts.iter().map(|t| extreme(t, hi)).collect()),
            Ty::Array(t, n) => Val::Array((0..*n).map(|_| extreme(t, hi)).collect()),
            Ty::List(t, b) => {
                if hi {
                    Val::List((0..b - 1).map(|_| extreme(t, hi)).collect(), *b)
                } else {
                    Val::List(vec![], *b)
                }
            }
            Ty::Option(t) => {
                if hi {
                    Val::Some(Box::new(extreme(t, hi)))
                } else {
                    Val::None
                }
            }
            Ty::Either(l, r) => {
                if hi {
                    Val::Right(Box::new(extreme(r, hi)))
                } else {
                    Val::Left(Box::new(extreme(l, hi)))
                }
            }
            Ty::Alias(n) => panic!("alias {n}"),
        }
    }
    let mut v = vec![extreme(t, false), extreme(t, true)];
    v.dedup();
    v
}

/// Random resolved type.
pub fn random_ty(rng: &mut Rng, depth: usize, max_list: usize) -> Ty {
    let leaf = |rng: &mut Rng| -> Ty {
        match rng.below(20) {
            0 => Ty::Bool,
            1 => Ty::Bool,
            2 => Ty::unit(),
            3 => Ty::U(1),
            4 => Ty::U(2),
            5 => Ty::U(4),
            6..=9 => Ty::U(8),
            10..=11 => Ty::U(16),
            12..=13 => Ty::U(32),
            14..=15 => Ty::U(64),
            16 => Ty::U(128),
            17 => Ty::U(256),
            _ => Ty::U(8),
        }
    };
    if depth == 0 || rng.chance(2, 5) {
        return leaf(rng);
    }
    match rng.below(6) {
        0 => {
            let n = *rng.pick(&[0usize, 1, 2, 2, 2, 3, 3, 4, 5]);
            Ty::Tuple((0..n).map(|_| random_ty(rng, depth - 1, max_list)).collect())
        }
        1 => {
            let n = *rng.pick(&[0usize, 1, 2, 2, 3, 3, 4, 5, 6, 7, 8, 9]);
            Ty::arr(random_ty(rng, depth - 1, max_list), n)
        }
        2 => {
            let mut bounds = vec![2usize];
            let mut b = 4;
            while b <= max_list {
                bounds.push(b);
                b *= 2;
            }
            Ty::list(random_ty(rng, depth - 1, max_list), *rng.pick(&bounds))
        }
        3 | 4 => Ty::opt(random_ty(rng, depth - 1, max_list)),
        _ => Ty::either(
            random_ty(rng, depth - 1, max_list),
            random_ty(rng, depth - 1, max_list),
        ),
    }
}

/// Types with the same documented layout as `t` (one rewriting step from the casting table).
pub fn cast_variants(t: &Ty) -> Vec<Ty> {
    let mut out = vec![];
    match t {
        Ty::Bool => {
            out.push(Ty::U(1));
            out.push(Ty::either(Ty::unit(), Ty::unit()));
            out.push(Ty::opt(Ty::unit()));
        }
        Ty::U(1) => {
            out.push(Ty::Bool);
            out.push(Ty::either(Ty::unit(), Ty::unit()));
        }
        Ty::U(n) => {
            out.push(Ty::Tuple(vec![Ty::U(n / 2), Ty::U(n / 2)]));
            out.push(Ty::arr(Ty::U(n / 2), 2));
            if *n >= 4 {
                out.push(Ty::arr(Ty::U(n / 4), 4));
            }
        }
        Ty::Option(a) => {
            out.push(Ty::either(Ty::unit(), (**a).clone()));
            out.push(Ty::list((**a).clone(), 2));
        }
        Ty::Either(l, r) => {
            if l.is_unit() {
                out.push(Ty::opt((**r).clone()));
                if r.is_unit() {
                    out.push(Ty::Bool);
                    out.push(Ty::U(1));
                }
            }
        }
        Ty::Tuple(ts) => match ts.len() {
            0 => {
                out.push(Ty::arr(Ty::U(8), 0));
                out.push(Ty::arr(Ty::Bool, 0));
            }
            1 => out.push(ts[0].clone()),
            n => {
                if ts.iter().all(|x| *x == ts[0]) {
                    out.push(Ty::arr(ts[0].clone(), n));
                    if n == 2 {
                        if let Ty::U(w) = ts[0] {
                            if w < 256 {
                                out.push(Ty::U(w * 2));
                            }
                        }
                    }
                }
                if n >= 3 {
                    // regroup along the documented split
                    let mut p = 1;
                    while p * 2 < n {
                        p *= 2;
                    }
                    let k = n - p;
                    let left = if k == 1 { ts[0].clone() } else { Ty::Tuple(ts[..k].to_vec()) };
                    let right = if p == 1 { ts[k].clone() } else { Ty::Tuple(ts[k..].to_vec()) };
                    out.push(Ty::Tuple(vec![left, right]));
                }
            }
        },
        Ty::Array(a, n) => {
            match n {
                0 => out.push(Ty::unit()),
                1 => out.push((**a).clone()),
                _ => {}
            }
            if *n <= 8 {
                out.push(Ty::Tuple((0..*n).map(|_| (**a).clone()).collect()));
            }
            if *n == 2 {
                if let Ty::U(w) = **a {
                    if w < 256 {
                        out.push(Ty::U(w * 2));
                    }
                }
            }
            if *n >= 2 && n.is_power_of_two() {
                out.push(Ty::arr(Ty::arr((**a).clone(), n / 2), 2));
            }
        }
        Ty::List(a, b) => {
            if *b == 2 {
                out.push(Ty::opt((**a).clone()));
            } else {
                out.push(Ty::Tuple(vec![
                    Ty::opt(Ty::arr((**a).clone(), b / 2)),
                    Ty::list((**a).clone(), b / 2),
                ]));
            }
        }
        Ty::Alias(_) => {}
    }
    // the wrapping direction, always available
    out.push(Ty::Tuple(vec![t.clone()]));
    out.push(Ty::arr(t.clone(), 1));
    out
}
