//! SplitMix64 — the only source of randomness in the harness.

#[derive(Clone, Debug)]
pub struct Rng(pub u64);

impl Rng {
    pub fn new(seed: u64) -> Self {
        Rng(seed ^ 0x9E37_79B9_7F4A_7C15)
    }

    /// Derive an independent stream from a seed and a list of labels.
    pub fn derive(seed: u64, labels: &[u64]) -> Self {
        let mut r = Rng::new(seed);
        for l in labels {
            r.0 ^= l.wrapping_mul(0xD6E8_FEB8_6659_FD93);
            r.next();
        }
        r
    }

    pub fn next(&mut self) -> u64 {
        self.0 = self.0.wrapping_add(0x9E37_79B9_7F4A_7C15);
        let mut z = self.0;
        z = (z ^ (z >> 30)).wrapping_mul(0xBF58_476D_1CE4_E5B9);
        z = (z ^ (z >> 27)).wrapping_mul(0x94D0_49BB_1331_11EB);
        z ^ (z >> 31)
    }

    /// Uniform in 0..n (n > 0).
    pub fn below(&mut self, n: usize) -> usize {
        debug_assert!(n > 0);
        (self.next() % (n as u64)) as usize
    }

    /// Inclusive range.
    pub fn range(&mut self, lo: usize, hi: usize) -> usize {
        lo + self.below(hi - lo + 1)
    }

    /// True with probability num/den.
    pub fn chance(&mut self, num: usize, den: usize) -> bool {
        self.below(den) < num
    }

    pub fn pick<'a, T>(&mut self, xs: &'a [T]) -> &'a T {
        &xs[self.below(xs.len())]
    }

    pub fn bytes(&mut self, n: usize) -> Vec<u8> {
        (0..n).map(|_| self.next() as u8).collect()
    }

    pub fn shuffle<T>(&mut self, xs: &mut [T]) {
        for i in (1..xs.len()).rev() {
            let j = self.below(i + 1);
            xs.swap(i, j);
        }
    }
}

pub fn fnv64(data: &[u8]) -> u64 {
    let mut h: u64 = 0xcbf29ce484222325;
    for b in data {
        h ^= *b as u64;
        h = h.wrapping_mul(0x100000001b3);
    }
    h
}
