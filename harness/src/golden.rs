//! The documented jet signatures (`/verif/jets_golden.tsv`): jet -> parameter types, result type.

use std::collections::HashMap;
use std::str::FromStr;

use simfony::simplicity::jet::Elements;

use crate::ast::{resolve_builtin, Ty};
use crate::textparse::parse_ty;

#[derive(Clone, Debug)]
pub struct JetSig {
    pub name: String,
    pub jet: Elements,
    /// as documented (may use builtin aliases)
    pub params: Vec<Ty>,
    pub ret: Ty,
    /// aliases resolved
    pub rparams: Vec<Ty>,
    pub rret: Ty,
}

pub struct Golden {
    pub sigs: Vec<JetSig>,
    pub by_name: HashMap<String, usize>,
}

pub const GOLDEN_TSV: &str = include_str!("../../jets_golden.tsv");

impl Golden {
    pub fn load() -> Golden {
        let mut sigs = vec![];
        let mut by_name = HashMap::new();
        for line in GOLDEN_TSV.lines() {
            if line.trim().is_empty() {
                continue;
            }
            let cols: Vec<&str> = line.split('\t').collect();
            assert_eq!(cols.len(), 3, "bad golden line: {line}");
            let name = cols[0].to_string();
            let params: Vec<Ty> = if cols[1].trim().is_empty() {
                vec![]
            } else {
                cols[1]
                    .split('|')
                    .map(|s| parse_ty(s.trim()).expect("golden param type"))
                    .collect()
            };
            let ret = parse_ty(cols[2].trim()).expect("golden result type");
            let jet = Elements::from_str(&name).expect("golden jet name");
            let rparams = params.iter().map(|t| resolve_builtin(t).unwrap()).collect();
            let rret = resolve_builtin(&ret).unwrap();
            by_name.insert(name.clone(), sigs.len());
            sigs.push(JetSig {
                name,
                jet,
                params,
                ret,
                rparams,
                rret,
            });
        }
        Golden { sigs, by_name }
    }

    pub fn get(&self, name: &str) -> Option<&JetSig> {
        self.by_name.get(name).map(|i| &self.sigs[*i])
    }
}
