//! G3 — grammar-aware token mutator for program texts, witness modules, JSON files, value and
//! type strings, plus raw random strings. Keeps bracket nesting at most `MAX_DEPTH`.

use crate::rng::Rng;

pub const MAX_DEPTH: usize = 12;

#[derive(Clone, Debug, PartialEq, Eq)]
pub struct Tok {
    pub text: String,
    pub kind: TokKind,
}

#[derive(Clone, Copy, Debug, PartialEq, Eq)]
pub enum TokKind {
    Ident,
    Number,
    Punct,
    Space,
    Comment,
    Str,
}

pub fn lex(s: &str) -> Vec<Tok> {
    let cs: Vec<char> = s.chars().collect();
    let mut i = 0;
    let mut out = vec![];
    while i < cs.len() {
        let c = cs[i];
        let start = i;
        let kind;
        if c.is_whitespace() {
            while i < cs.len() && cs[i].is_whitespace() {
                i += 1;
            }
            kind = TokKind::Space;
        } else if c == '/' && i + 1 < cs.len() && cs[i + 1] == '/' {
            while i < cs.len() && cs[i] != '\n' {
                i += 1;
            }
            kind = TokKind::Comment;
        } else if c == '/' && i + 1 < cs.len() && cs[i + 1] == '*' {
            i += 2;
            while i < cs.len() && !(cs[i] == '*' && i + 1 < cs.len() && cs[i + 1] == '/') {
                i += 1;
            }
            i = (i + 2).min(cs.len());
            kind = TokKind::Comment;
        } else if c == '"' {
            i += 1;
            while i < cs.len() && cs[i] != '"' {
                i += 1;
            }
            i = (i + 1).min(cs.len());
            kind = TokKind::Str;
        } else if c.is_ascii_alphabetic() || c == '_' {
            while i < cs.len() && (cs[i].is_ascii_alphanumeric() || cs[i] == '_') {
                i += 1;
            }
            kind = TokKind::Ident;
        } else if c.is_ascii_digit() {
            while i < cs.len() && (cs[i].is_ascii_alphanumeric() || cs[i] == '_') {
                i += 1;
            }
            kind = TokKind::Number;
        } else {
            let two: String = cs[i..(i + 2).min(cs.len())].iter().collect();
            if ["::", "->", "=>"].contains(&two.as_str()) {
                i += 2;
            } else {
                i += 1;
            }
            kind = TokKind::Punct;
        }
        out.push(Tok {
            text: cs[start..i].iter().collect(),
            kind,
        });
    }
    out
}

pub fn unlex(ts: &[Tok]) -> String {
    ts.iter().map(|t| t.text.as_str()).collect()
}

pub fn nesting_depth(s: &str) -> usize {
    let mut d: usize = 0;
    let mut m = 0;
    for c in s.chars() {
        match c {
            '(' | '[' | '{' | '<' => {
                d += 1;
                m = m.max(d);
            }
            ')' | ']' | '}' | '>' => d = d.saturating_sub(1),
            _ => {}
        }
    }
    m
}

pub const DICT: &[&str] = &[
    "fn", "let", "match", "type", "mod", "const", "witness", "param", "main", "true", "false", "None", "Some(", "Left(",
    "Right(", "bool", "u1", "u2", "u4", "u8", "u16", "u32", "u64", "u128", "u256", "Either<", "Option<", "List<", "Ctx8",
    "Pubkey", "Message", "Message64", "Signature", "Scalar", "Fe", "Gej", "Ge", "Point", "Height", "Time", "Distance",
    "Duration", "Lock", "Outpoint", "Confidential1", "ExplicitAsset", "Asset1", "ExplicitAmount", "Amount1",
    "ExplicitNonce", "Nonce", "TokenAmount1", "unwrap_left::<", "unwrap_right::<", "is_none::<", "unwrap", "assert!",
    "panic!", "dbg!", ">::into", "fold::<", "for_while::<", "list![", "jet::", "jet::add_8", "jet::eq_32", "jet::verify",
    "jet::bip_0340_verify", "jet::sha_256_ctx_8_init", "witness::", "witness::A", "param::", "param::P", "(", ")", "[", "]",
    "{", "}", "<", ">", ",", ";", ":", "::", "->", "=>", "=", "_", "!", ".", "-", "+", "*", "/", "//", "/*", "*/", "\"", "'",
    "0", "1", "255", "256", "4294967295", "4294967296", "_", "0x_", "0b_", "0x", "0b", "0x0", "0xff", "0xfff", "0b1", "0b01",
    "0b00000001", "00", "0_0", "18446744073709551616", "x", "a", "b", "f", "T", "\n", "\r\n", "\r", "\t", "\u{c}", " ",
    "é", "✓", "𝔘", "\u{0}", "\u{feff}", "\u{202e}", "witness {", "mod witness {", "mod param {", "const A: u8 = 1;", "2",
    "4", "8", "16", "3", "0", "65536", "1000000", "18446744073709551615", "99999999999999999999", "value", "type",
    "\"value\"", "\"type\"", "null", "{}", "[]", "\\", "\\u0041",
];

/// Literal edge forms.
pub fn edge_literal(rng: &mut Rng) -> String {
    match rng.below(10) {
        0 => "_".into(),
        1 => "0x_".into(),
        2 => "0b_".into(),
        3 => format!("0x{}", "f".repeat(1 + 2 * rng.below(5))), // odd digit count
        4 => "9".repeat(300),
        5 => format!("0b{}", "1".repeat(rng.below(300) + 1)),
        6 => format!("0x{}", "a".repeat(rng.below(200) + 1)),
        7 => format!("{}1", "0".repeat(rng.below(100))),
        8 => "1_2__3_".into(),
        _ => format!("{}", rng.next()),
    }
}

/// One mutation step on a token vector.
pub fn mutate_tokens(ts: &mut Vec<Tok>, rng: &mut Rng) {
    if ts.is_empty() {
        ts.push(Tok { text: rng.pick(DICT).to_string(), kind: TokKind::Punct });
        return;
    }
    let i = rng.below(ts.len());
    match rng.below(12) {
        0 => {
            ts.remove(i);
        }
        1 | 2 => {
            let t = rng.pick(DICT).to_string();
            ts.insert(i, Tok { text: t, kind: TokKind::Punct });
        }
        3 | 4 => {
            ts[i].text = rng.pick(DICT).to_string();
        }
        5 => {
            let t = ts[i].clone();
            ts.insert(i, t);
        }
        6 => {
            if i + 1 < ts.len() {
                ts.swap(i, i + 1);
            }
        }
        7 => {
            // literal edge forms: replace the nearest number, else insert
            match ts.iter().position(|t| t.kind == TokKind::Number) {
                Some(k) => ts[k].text = edge_literal(rng),
                None => ts.insert(i, Tok { text: edge_literal(rng), kind: TokKind::Number }),
            }
        }
        8 => {
            // whitespace variants
            if let Some(k) = ts.iter().position(|t| t.kind == TokKind::Space) {
                ts[k].text = rng.pick(&["\r\n", "\r", "\t", "\u{c}", "", "\n\n\n", " \t "]).to_string();
            }
        }
        9 => {
            // swap two random tokens (not adjacent)
            let j = rng.below(ts.len());
            ts.swap(i, j);
        }
        10 => {
            // identifier edits: prefix / suffix / case
            if let Some(k) = ts.iter().position(|t| t.kind == TokKind::Ident) {
                let s = ts[k].text.clone();
                ts[k].text = match rng.below(4) {
                    0 => format!("{s}_"),
                    1 => format!("_{s}"),
                    2 => s.to_uppercase(),
                    _ => format!("{s}{}", rng.pick(&["1", "x", "é"])),
                };
            }
        }
        _ => {
            // delete a run of tokens
            let n = 1 + rng.below(4);
            for _ in 0..n {
                if i < ts.len() {
                    ts.remove(i);
                }
            }
        }
    }
}

/// A mutated text of nesting depth <= MAX_DEPTH derived from `base`.
pub fn mutate_text(base: &str, rng: &mut Rng) -> String {
    for _ in 0..20 {
        let out = match rng.below(20) {
            0 => {
                // truncation at a byte boundary
                let mut k = rng.below(base.len() + 1);
                while !base.is_char_boundary(k) {
                    k -= 1;
                }
                base[..k].to_string()
            }
            1 => {
                // unterminated comment
                let mut k = rng.below(base.len() + 1);
                while !base.is_char_boundary(k) {
                    k -= 1;
                }
                format!("{}/*{}", &base[..k], &base[k..])
            }
            2 => {
                // raw random characters somewhere
                let mut k = rng.below(base.len() + 1);
                while !base.is_char_boundary(k) {
                    k -= 1;
                }
                let n = 1 + rng.below(6);
                format!("{}{}{}", &base[..k], random_string(rng, n), &base[k..])
            }
            3 => base.replace('\n', "\r\n"),
            4 => base.replace('\n', "\r"),
            5 => base.replace(' ', "\t"),
            6 | 7 => {
                // an array size, list bound or fold bound (a number behind `;` or `,`) replaced
                // by an edge value: zero, one, no power of two, leading zeros, just too big
                let mut ts = lex(base);
                let sizes: Vec<usize> = (1..ts.len())
                    .filter(|k| ts[*k].kind == TokKind::Number)
                    .filter(|k| {
                        ts[..*k].iter().rev().find(|t| !t.text.trim().is_empty()).map_or(false, |t| t.text == ";" || t.text == ",")
                    })
                    .collect();
                if sizes.is_empty() {
                    mutate_tokens(&mut ts, rng);
                } else {
                    let k = *rng.pick(&sizes);
                    ts[k].text = rng.pick(&["0", "1", "2", "3", "00", "01", "0_2", "2_", "6", "65536", "65537", "18446744073709551615", "18446744073709551616"]).to_string();
                }
                unlex(&ts)
            }
            _ => {
                let mut ts = lex(base);
                let n = 1 + rng.below(3);
                for _ in 0..n {
                    mutate_tokens(&mut ts, rng);
                }
                unlex(&ts)
            }
        };
        if nesting_depth(&out) <= MAX_DEPTH {
            return out;
        }
    }
    base.to_string()
}

pub fn random_string(rng: &mut Rng, n: usize) -> String {
    let pools: [&[char]; 3] = [
        &['a', 'z', 'A', '0', '9', '_', ' ', '\n', '(', ')', '{', '}', '[', ']', '<', '>', ',', ';', ':', '=', '!', '"', '/', '*', '-', '.', '\\', '\'', '#', '@', '$', '%', '^', '&', '|', '~', '`', '?', '+'],
        &['é', 'ß', '✓', '日', '本', '𝔘', '🦀', '\u{0}', '\u{7f}', '\u{a0}', '\u{2028}', '\u{feff}', '\u{202e}', '\u{ffff}'],
        &['\t', '\r', '\u{b}', '\u{c}', '\u{85}'],
    ];
    let mut s = String::new();
    let mut depth = 0;
    for _ in 0..n {
        let pool = pools[if rng.chance(3, 4) { 0 } else { 1 + rng.below(2) }];
        let c = *rng.pick(pool);
        if "([{<".contains(c) {
            if depth >= MAX_DEPTH {
                continue;
            }
            depth += 1;
        }
        s.push(c);
    }
    s
}
