//! M4 — instrumented value-level evaluator of a `RedeemNode<Elements>`.
//!
//! simplicity-lang 0.4.0 exposes no execution tracker, so the history of an execution is
//! recorded by this small evaluator; jets are executed by the real C implementation through
//! a one-node Bit Machine. The *verdict* of an execution always comes from the real Bit
//! Machine; this evaluator supplies the *event log* and must agree with the verdict.

use simfony::simplicity::jet::Elements;
use simfony::simplicity::node::Inner;
use simfony::simplicity::{Cmr, FailEntropy, RedeemNode};

use crate::bridge::{cmr_bytes, tree_of, JetRunner};
use crate::layout::Tree;

#[derive(Clone, PartialEq, Eq, Debug)]
pub enum Event {
    /// a jet node was executed (output None = the jet failed, which ends the run)
    Jet {
        name: String,
        input: Tree,
        output: Option<Tree>,
    },
    /// an `assertl`/`assertr` whose hidden branch is `fail 0` was executed (unwrap*)
    Unwrap { right: bool, scrut: Tree },
    /// a `fail` node was reached (panic!)
    Fail,
    /// an `assertl (drop body) cmr` with `cmr` in the debug symbol table was executed
    Marker { cmr: [u8; 32], args: Tree },
    /// an assertion whose hidden CMR is neither `fail 0` nor a known marker
    OtherAssert { cmr: [u8; 32] },
    /// a witness node was executed and delivered this value
    Witness { value: Tree },
}

impl Event {
    pub fn brief(&self) -> String {
        match self {
            Event::Jet { name, input, output } => format!(
                "jet {name} {} -> {}",
                input.brief(),
                output.as_ref().map(|o| o.brief()).unwrap_or("FAILED".into())
            ),
            Event::Unwrap { right, scrut } => format!(
                "unwrap_{} {}",
                if *right { "right" } else { "left" },
                scrut.brief()
            ),
            Event::Fail => "fail".into(),
            Event::Marker { cmr, args } => {
                format!("marker {} {}", &crate::bridge::hex(&cmr[..4]), args.brief())
            }
            Event::OtherAssert { cmr } => format!("other-assert {}", crate::bridge::hex(&cmr[..4])),
            Event::Witness { value } => format!("witness {}", value.brief()),
        }
    }
}

#[derive(Clone, PartialEq, Eq, Debug)]
pub enum Stop {
    JetFailed(String),
    PrunedBranch,
    FailNode,
    /// the evaluator met something it does not model: harness fault, never a violation
    Unsupported(String),
}

#[derive(Clone, Debug)]
pub struct Trace {
    pub events: Vec<Event>,
    pub result: Result<(), Stop>,
    pub steps: u64,
}

pub struct TraceMachine<'a> {
    pub jets: &'a mut JetRunner,
    pub markers: Option<&'a simfony::debug::DebugSymbols>,
    pub events: Vec<Event>,
    pub steps: u64,
    pub max_events: usize,
    fail0: Cmr,
}

impl<'a> TraceMachine<'a> {
    pub fn new(jets: &'a mut JetRunner, markers: Option<&'a simfony::debug::DebugSymbols>) -> Self {
        TraceMachine {
            jets,
            markers,
            events: vec![],
            steps: 0,
            max_events: 2_000_000,
            fail0: Cmr::fail(FailEntropy::ZERO),
        }
    }

    pub fn run(mut self, prog: &RedeemNode<Elements>) -> Trace {
        let r = self.eval(prog, &Tree::Unit).map(|_| ());
        Trace {
            events: self.events,
            result: r,
            steps: self.steps,
        }
    }

    fn push(&mut self, e: Event) -> Result<(), Stop> {
        if self.events.len() >= self.max_events {
            return Err(Stop::Unsupported("event limit".into()));
        }
        self.events.push(e);
        Ok(())
    }

    fn eval(&mut self, node: &RedeemNode<Elements>, input: &Tree) -> Result<Tree, Stop> {
        self.steps += 1;
        match node.inner() {
            Inner::Iden => Ok(input.clone()),
            Inner::Unit => Ok(Tree::Unit),
            Inner::InjL(c) => Ok(Tree::l(self.eval(c, input)?)),
            Inner::InjR(c) => Ok(Tree::r(self.eval(c, input)?)),
            Inner::Take(c) => match input {
                Tree::P(a, _) => self.eval(c, a),
                _ => Err(Stop::Unsupported("take on non-product".into())),
            },
            Inner::Drop(c) => match input {
                Tree::P(_, b) => self.eval(c, b),
                _ => Err(Stop::Unsupported("drop on non-product".into())),
            },
            Inner::Comp(a, b) => {
                let mid = self.eval(a, input)?;
                self.eval(b, &mid)
            }
            Inner::Pair(a, b) => {
                let l = self.eval(a, input)?;
                let r = self.eval(b, input)?;
                Ok(Tree::p(l, r))
            }
            Inner::Case(l, r) => match input {
                Tree::P(s, c) => match &**s {
                    Tree::L(a) => self.eval(l, &Tree::P(a.clone(), c.clone())),
                    Tree::R(b) => self.eval(r, &Tree::P(b.clone(), c.clone())),
                    _ => Err(Stop::Unsupported("case on non-sum".into())),
                },
                _ => Err(Stop::Unsupported("case on non-product".into())),
            },
            Inner::AssertL(l, cmr) => match input {
                Tree::P(s, c) => {
                    let cb = cmr_bytes(*cmr);
                    if *cmr == self.fail0 {
                        self.push(Event::Unwrap {
                            right: false,
                            scrut: (**s).clone(),
                        })?;
                    } else if self.markers.map_or(false, |m| m.contains_key(cmr)) {
                        self.push(Event::Marker {
                            cmr: cb,
                            args: (**c).clone(),
                        })?;
                    } else {
                        self.push(Event::OtherAssert { cmr: cb })?;
                    }
                    match &**s {
                        Tree::L(a) => self.eval(l, &Tree::P(a.clone(), c.clone())),
                        Tree::R(_) => Err(Stop::PrunedBranch),
                        _ => Err(Stop::Unsupported("assertl on non-sum".into())),
                    }
                }
                _ => Err(Stop::Unsupported("assertl on non-product".into())),
            },
            Inner::AssertR(cmr, r) => match input {
                Tree::P(s, c) => {
                    let cb = cmr_bytes(*cmr);
                    if *cmr == self.fail0 {
                        self.push(Event::Unwrap {
                            right: true,
                            scrut: (**s).clone(),
                        })?;
                    } else {
                        self.push(Event::OtherAssert { cmr: cb })?;
                    }
                    match &**s {
                        Tree::R(b) => self.eval(r, &Tree::P(b.clone(), c.clone())),
                        Tree::L(_) => Err(Stop::PrunedBranch),
                        _ => Err(Stop::Unsupported("assertr on non-sum".into())),
                    }
                }
                _ => Err(Stop::Unsupported("assertr on non-product".into())),
            },
            Inner::Witness(v) => {
                let t = tree_of(v.as_ref());
                self.push(Event::Witness { value: t.clone() })?;
                Ok(t)
            }
            Inner::Word(w) => Ok(tree_of(w.as_value().as_ref())),
            Inner::Fail(_) => {
                self.push(Event::Fail)?;
                Err(Stop::FailNode)
            }
            Inner::Jet(j) => {
                let out = self
                    .jets
                    .run(*j, input)
                    .map_err(|e| Stop::Unsupported(format!("jet runner: {e}")))?;
                self.push(Event::Jet {
                    name: j.to_string(),
                    input: input.clone(),
                    output: out.clone(),
                })?;
                match out {
                    Some(o) => Ok(o),
                    None => Err(Stop::JetFailed(j.to_string())),
                }
            }
            Inner::Disconnect(..) => Err(Stop::Unsupported("disconnect".into())),
        }
    }
}

/// Run `f` on a thread with a large stack (deeply nested programs recurse deeply).
pub fn with_big_stack<T: Send + 'static>(f: impl FnOnce() -> T + Send + 'static) -> T {
    std::thread::Builder::new()
        .stack_size(1 << 30)
        .spawn(f)
        .expect("spawn")
        .join()
        .expect("big-stack thread panicked")
}
