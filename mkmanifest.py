#!/usr/bin/env python3
"""Regenerate MANIFEST.json from props_meta.py (the single source of per-property metadata)."""
import json, os
from props_meta import PROPS, MANIFEST_TEXT

ROOT = os.path.dirname(os.path.abspath(__file__))
ALL = [json.loads(l)["id"] for l in open(os.path.join(ROOT, "properties.jsonl"))]
checks, na = [], []
for pid in ALL:
    if pid in PROPS and not PROPS[pid].get("disabled"):
        t = MANIFEST_TEXT[pid]
        checks.append({
            "property_id": pid,
            "quick_cmd": f"./check {pid} --tier quick",
            "thorough_cmd": f"./check {pid} --tier thorough",
            "evidence_file": f"/verif/evidence/{pid}.json",
            "replay_cmd_template": f"./check {pid} --replay {{path}}",
            "engine": "simfony-verif",
            "level_claimed": {"category": PROPS[pid]["level"], "text": t["text"], "design_ref": t["design_ref"]},
            "level_note": t["note"],
            "technique": t["technique"],
        })
    else:
        na.append({"property_id": pid, "reason": (PROPS.get(pid, {}).get("disabled") or
                   "check not built yet in this round (runtime monitoring applies; see DESIGN.md section 6)")})
m = {
    "version": 1,
    "setup_cmd": "cd /verif/harness && CARGO_NET_OFFLINE=true cargo build --offline --release && CARGO_NET_OFFLINE=true CARGO_TARGET_DIR=/verif/target-simc cargo build --offline --release --bin simc --manifest-path /repo/Cargo.toml",
    "hooks": {
        "guard": "simfony_verif",
        "enable": "RUSTFLAGS='--cfg simfony_verif' (set in /verif/harness/.cargo/config.toml); no hook commits exist: every observation point is public API",
        "baseline_off_cmd": "cd /repo && cargo test --workspace --no-fail-fast --offline",
        "source_commits": [],
        "add_only": True,
    },
    "engines": [{
        "name": "simfony-verif",
        "path": "/verif/harness",
        "serves_properties": [c["property_id"] for c in checks],
        "kind_free_text": "Rust worker binary (monitors, reference semantics, generators) driven by /verif/check (python3, stdlib only)",
    }],
    "checks": checks,
    "not_applicable": na,
    "notes": "Runtime monitoring: the real library is driven through its public API by generated and hostile workloads; "
             "monitors (reference interpreter + event-log checker, redeem walker, panic/abort monitor, round-trip and "
             "metamorphic oracles, sanitizer tiers) judge the recorded executions. See DESIGN.md.",
}
json.dump(m, open(os.path.join(ROOT, "MANIFEST.json"), "w"), indent=1)
print("claimed:", [c["property_id"] for c in checks])
